// bounded-pkg: ledger/common
// bounded-bound: all 65536 ordered pairs of multi-asset values over 2 policies x 2 asset names with each quantity in {absent, 0, 1, 2} (thorough tier: {absent, 0, 1, 2, 3}, 390625 pairs), plus 1536 pairs with nil quantities and quantities of 2^64 and -1
//
// Bounded stand-in for MultiAsset.Compare (C06, and the equality test of C32's collateral rules).
// Compare's correctness rests on a counting argument (the other value's non-zero entries are matched
// and the numbers of policies / of names per policy agree, so nothing is left over); both directions
// were stated as postconditions but no solver decided them, so Compare is NOT proved. This harness
// enumerates a bounded space completely and compares the real Compare with the property statement:
// equal iff the quantities agree for every (policy, asset name), where absent, nil and zero all count
// as zero. Injected into /repo with `go test -overlay`; never part of the repository.
package common

import (
	"math/big"
	"os"
	"testing"

	"github.com/blinklabs-io/gouroboros/cbor"
)

type bcVal [4]*big.Int // quantities for (P1,a) (P1,b) (P2,a) (P2,b); nil entry = absent

func bcBuild(v bcVal, nilAt int) *MultiAsset[MultiAssetTypeOutput] {
	data := map[Blake2b224]map[cbor.ByteString]MultiAssetTypeOutput{}
	for i, q := range v {
		if q == nil && i != nilAt {
			continue
		}
		var p Blake2b224
		p[0] = byte(1 + i/2)
		if data[p] == nil {
			data[p] = map[cbor.ByteString]MultiAssetTypeOutput{}
		}
		name := cbor.NewByteString([]byte{byte('a' + i%2)})
		if q == nil {
			data[p][name] = nil // a present key holding a nil quantity
		} else {
			data[p][name] = new(big.Int).Set(q)
		}
	}
	m := NewMultiAsset[MultiAssetTypeOutput](data)
	return &m
}

func bcEqual(a, b bcVal) bool {
	for i := range a {
		x, y := new(big.Int), new(big.Int)
		if a[i] != nil {
			x = a[i]
		}
		if b[i] != nil {
			y = b[i]
		}
		if x.Cmp(y) != 0 {
			return false
		}
	}
	return true
}

func TestVerifBounded(t *testing.T) {
	small := []*big.Int{nil, big.NewInt(0), big.NewInt(1), big.NewInt(2)}
	if os.Getenv("VERIF_TIER") == "thorough" {
		small = append(small, big.NewInt(3))
	}
	var vals []bcVal
	for _, q0 := range small {
		for _, q1 := range small {
			for _, q2 := range small {
				for _, q3 := range small {
					vals = append(vals, bcVal{q0, q1, q2, q3})
				}
			}
		}
	}
	n := 0
	check := func(a, b bcVal, na, nb int) bool {
		n++
		got := bcBuild(a, na).Compare(bcBuild(b, nb))
		if want := bcEqual(a, b); got != want {
			t.Errorf("VERIF-BOUNDED: violated: Compare(%v [nil entry at %d], %v [nil entry at %d]) = %v, the quantities are equal: %v", a, na, b, nb, got, want)
			return false
		}
		return true
	}
	for _, a := range vals {
		for _, b := range vals {
			if !check(a, b, -1, -1) {
				return
			}
		}
	}
	// nil quantities stored under a present key, and quantities outside the small range
	two64 := new(big.Int).Lsh(big.NewInt(1), 64)
	wide := []*big.Int{nil, big.NewInt(0), two64, big.NewInt(-1)}
	for _, q0 := range wide {
		for _, q1 := range wide {
			for _, r0 := range wide {
				for _, r1 := range wide {
					for na := -1; na < 2; na++ {
						for nb := 0; nb < 2; nb++ {
							if !check(bcVal{q0, q1, nil, big.NewInt(1)}, bcVal{r0, r1, nil, big.NewInt(1)}, na, nb-1+nb) {
								return
							}
						}
					}
				}
			}
		}
	}
	t.Logf("VERIF-BOUNDED: %d cases: Compare agrees with per-key equality of quantities on the whole bounded space", n)
}
