// replay-pkg: protocol
//
// Replay harness for C10 (messages survive segmentation and reassembly unchanged). Injected into
// /repo with `go test -overlay`; never part of the repository. A failed obligation of sendLoop or
// readLoop says that a batch is not cut into consecutive pieces, or that the receiver does not hand
// the codec exactly the bytes of one message and keep exactly the rest. The harness concretises that
// input class on two real Protocol instances joined by two real muxers over net.Pipe: a client streams
// messages whose sizes cross the 65535-byte segment boundary (one message split over several segments,
// several messages packed into one segment, a message ending exactly at a boundary), and the server's
// handler must see the same messages, byte for byte, in the same order.
package protocol

import (
	"bytes"
	"fmt"
	"net"
	"testing"
	"time"

	"github.com/blinklabs-io/gouroboros/cbor"
	"github.com/blinklabs-io/gouroboros/muxer"
)

type c10Msg struct {
	MessageBase
	Seq  uint
	Data []byte
}

func c10FromCbor(msgType uint, data []byte) (Message, error) {
	ret := &c10Msg{}
	if _, err := cbor.Decode(data, ret); err != nil {
		return nil, err
	}
	ret.SetCbor(data)
	return ret, nil
}

func TestVerifReplay(t *testing.T) {
	idle := NewState(1, "Idle")
	done := NewState(2, "Done")
	stateMap := StateMap{
		idle: StateMapEntry{Agency: AgencyClient, Transitions: []StateTransition{
			{MsgType: 0, NewState: idle},
			{MsgType: 1, NewState: done},
		}},
		done: StateMapEntry{Agency: AgencyNone},
	}
	// payload sizes: small ones packed together, one crossing the boundary, one several segments
	// long, sizes around 65535 so that an encoded message ends at / just before / just after a
	// segment boundary, then small ones again
	sizes := []int{1, 2, 3, 70000, 5, 200000, 65520, 65521, 65522, 65523, 65524, 65525, 65526, 65527, 65528, 65529, 65530, 65531, 65532, 7, 0, 131060, 9}
	var sent [][]byte
	var msgs []*c10Msg
	for i, n := range sizes {
		data := make([]byte, n)
		for k := range data {
			data[k] = byte(i*31 + k*7)
		}
		m := &c10Msg{MessageBase: MessageBase{MessageType: 0}, Seq: uint(i), Data: data}
		enc, err := cbor.Encode(m)
		if err != nil {
			t.Fatal(err)
		}
		sent = append(sent, enc)
		msgs = append(msgs, m)
	}
	clientConn, serverConn := net.Pipe()
	clientMux, serverMux := muxer.New(clientConn), muxer.New(serverConn)
	defer func() {
		clientMux.Stop()
		serverMux.Stop()
		_ = clientConn.Close()
		_ = serverConn.Close()
	}()
	clientMux.Start()
	serverMux.Start()
	clientErr, serverErr := make(chan error, 10), make(chan error, 10)
	got := make(chan []byte, len(sizes)+4)
	client := New(ProtocolConfig{
		Name: "c10", ProtocolId: 998, ErrorChan: clientErr, Muxer: clientMux, Mode: ProtocolModeNodeToNode,
		Role: ProtocolRoleClient, MessageFromCborFunc: c10FromCbor, StateMap: stateMap, InitialState: idle,
		MessageHandlerFunc: func(Message) error { return nil },
	})
	server := New(ProtocolConfig{
		Name: "c10", ProtocolId: 998, ErrorChan: serverErr, Muxer: serverMux, Mode: ProtocolModeNodeToNode,
		Role: ProtocolRoleServer, MessageFromCborFunc: c10FromCbor, StateMap: stateMap, InitialState: idle,
		MessageHandlerFunc: func(m Message) error {
			got <- append([]byte(nil), m.Cbor()...)
			return nil
		},
	})
	server.Start()
	client.Start()
	go func() {
		for _, m := range msgs {
			if err := client.SendMessage(m); err != nil {
				clientErr <- fmt.Errorf("send: %w", err)
				return
			}
		}
	}()
	for i := range sent {
		select {
		case b := <-got:
			if !bytes.Equal(b, sent[i]) {
				n := 0
				for n < len(b) && n < len(sent[i]) && b[n] == sent[i][n] {
					n++
				}
				t.Fatalf("VERIF-REPLAY: violated: message %d (payload %d bytes, %d encoded) arrived as %d bytes, first difference at byte %d", i, sizes[i], len(sent[i]), len(b), n)
			}
		case err := <-serverErr:
			t.Fatalf("VERIF-REPLAY: violated: receiver failed at message %d (payload %d bytes): %v", i, sizes[i], err)
		case err := <-clientErr:
			t.Fatalf("VERIF-REPLAY: violated: sender failed at message %d: %v", i, err)
		case <-time.After(20 * time.Second):
			t.Fatalf("VERIF-REPLAY: violated: message %d (payload %d bytes) never arrived", i, sizes[i])
		}
	}
	// a batch whose encoding is an exact multiple of the segment payload limit, with nothing queued
	// behind it: it must be delivered without waiting for further data
	for k, total := range []int{65535, 131070} {
		var m *c10Msg
		var enc []byte
		for n := total - 16; n <= total; n++ {
			cand := &c10Msg{MessageBase: MessageBase{MessageType: 0}, Seq: uint(100 + k), Data: make([]byte, n)}
			e, err := cbor.Encode(cand)
			if err != nil {
				t.Fatal(err)
			}
			if len(e) == total {
				m, enc = cand, e
				break
			}
		}
		if m == nil {
			t.Fatalf("could not build a message of %d encoded bytes", total)
		}
		if err := client.SendMessage(m); err != nil {
			t.Fatalf("VERIF-REPLAY: violated: sender failed: %v", err)
		}
		select {
		case b := <-got:
			if !bytes.Equal(b, enc) {
				t.Fatalf("VERIF-REPLAY: violated: the message of exactly %d encoded bytes arrived changed (%d bytes)", total, len(b))
			}
		case err := <-serverErr:
			t.Fatalf("VERIF-REPLAY: violated: receiver failed on the message of exactly %d encoded bytes: %v", total, err)
		case <-time.After(5 * time.Second):
			t.Fatalf("VERIF-REPLAY: violated: the message of exactly %d encoded bytes (a whole number of full segments, nothing behind it) was not delivered", total)
		}
	}
	t.Logf("VERIF-REPLAY: %d messages (payloads up to %d bytes) arrived byte for byte, in order, on the real code", len(sent), 200000)
}
