// replay-pkg: ledger/mary
//
// Replay harness for C08 (transaction output values stay within the ledger's value range). Injected
// into /repo with `go test -overlay`; never part of the repository. The failed obligation says an
// output value can be accepted by decoding with an asset quantity that is negative or above 2^64-1.
// The harness concretises that input class for every multi-asset era's output shape that shares the
// Mary value type and judges the real decoders by the property statement: decoding must fail.
package mary_test

import (
	"encoding/hex"
	"strings"
	"testing"

	"github.com/blinklabs-io/gouroboros/cbor"
	"github.com/blinklabs-io/gouroboros/ledger/alonzo"
	"github.com/blinklabs-io/gouroboros/ledger/babbage"
	"github.com/blinklabs-io/gouroboros/ledger/mary"
)

func TestVerifReplay(t *testing.T) {
	policy := strings.Repeat("ab", 28)
	addr := "581d61" + strings.Repeat("cd", 28) // enterprise key address, mainnet
	quantities := map[string]string{
		"-5":         "24",
		"-2^64":      "3bffffffffffffffff",
		"2^64":       "c249010000000000000000",
		"-(2^64)-1":  "c349010000000000000000",
	}
	violated := false
	for name, q := range quantities {
		value := "821a001e8480a1581c" + policy + "a14161" + q // [2000000, {policy: {"a": q}}]
		data, err := hex.DecodeString(value)
		if err != nil {
			t.Fatal(err)
		}
		var v mary.MaryTransactionOutputValue
		if _, err := cbor.Decode(data, &v); err == nil {
			t.Errorf("VERIF-REPLAY: violated: Mary output value with asset quantity %s was accepted", name)
			violated = true
		}
		// the same value inside the era output shapes
		outArr, _ := hex.DecodeString("82" + addr + value)
		var mo mary.MaryTransactionOutput
		if _, err := cbor.Decode(outArr, &mo); err == nil {
			t.Errorf("VERIF-REPLAY: violated: Mary output with asset quantity %s was accepted", name)
			violated = true
		}
		var ao alonzo.AlonzoTransactionOutput
		if _, err := cbor.Decode(outArr, &ao); err == nil {
			t.Errorf("VERIF-REPLAY: violated: Alonzo output with asset quantity %s was accepted", name)
			violated = true
		}
		outMap, _ := hex.DecodeString("a200" + addr + "01" + value)
		var bo babbage.BabbageTransactionOutput
		if _, err := cbor.Decode(outMap, &bo); err == nil {
			t.Errorf("VERIF-REPLAY: violated: Babbage output with asset quantity %s was accepted", name)
			violated = true
		}
	}
	// the coin component: a negative integer or one above 2^64-1 in coin position
	for name, coin := range map[string]string{"-4000000": "3a003d08ff", "-1": "20", "2^64": "c249010000000000000000"} {
		for shape, h := range map[string]string{"bare coin": coin, "[coin, assets]": "82" + coin + "a0"} {
			data, _ := hex.DecodeString(h)
			var v mary.MaryTransactionOutputValue
			if _, err := cbor.Decode(data, &v); err == nil {
				t.Errorf("VERIF-REPLAY: violated: output value (%s) with coin %s was accepted as %d", shape, name, v.Amount)
				violated = true
			}
		}
	}
	// sanity: an in-range quantity still decodes
	ok, _ := hex.DecodeString("821a001e8480a1581c" + policy + "a141611903e8")
	var v mary.MaryTransactionOutputValue
	if _, err := cbor.Decode(ok, &v); err != nil {
		t.Errorf("VERIF-REPLAY: harness error: in-range value rejected: %v", err)
	}
	if !violated {
		t.Log("VERIF-REPLAY: holds for the out-of-range quantities tried")
	}
}
