// replay-pkg: consensus
//
// Replay harness for C41 (chain selection is a consistent preference order). Injected into /repo
// with `go test -overlay`; never part of the repository. The obligation of Compare says its result is
// the specification's order (longer chain first, then the lower VRF output, a missing VRF output
// last), and the lemmas say that order is antisymmetric and transitive. The harness concretises the
// input class they quantify over - tips with block numbers around a tie, VRF outputs that are absent,
// empty, equal, shorter / longer byte strings and leading-zero variants - and judges the real code by
// the property statement: antisymmetry and transitivity over all pairs and triples, the tie-break
// towards the lower VRF output, and a preferred candidate that is maximal in every candidate order.
package consensus_test

import (
	"math/big"
	"testing"

	"github.com/blinklabs-io/gouroboros/consensus"
)

func sign(x int) int {
	switch {
	case x > 0:
		return 1
	case x < 0:
		return -1
	}
	return 0
}

func TestVerifReplay(t *testing.T) {
	sel := consensus.NewPraosChainSelector(2160)
	vrfs := [][]byte{nil, {}, {0x01}, {0x02}, {0x00, 0x02}, {0x01, 0x00}, {0xff}}
	var tips []consensus.ChainTip
	var names []string
	for _, bn := range []uint64{9, 10, 11} {
		for i, v := range vrfs {
			tips = append(tips, consensus.NewSimpleChainTip(100+bn, bn, v))
			names = append(names, "block "+big.NewInt(int64(bn)).String()+" vrf#"+big.NewInt(int64(i)).String())
		}
	}
	violated := false
	fail := func(format string, args ...any) {
		if !violated {
			t.Errorf("VERIF-REPLAY: violated: "+format, args...)
		}
		violated = true
	}
	for i, a := range tips {
		for j, b := range tips {
			ab, ba := sign(sel.Compare(a, b)), sign(sel.Compare(b, a))
			if ab != -ba {
				fail("Compare is not antisymmetric: (%s, %s) = %d, reversed = %d", names[i], names[j], ab, ba)
			}
			if a.BlockNumber() != b.BlockNumber() {
				if want := sign(int(a.BlockNumber()) - int(b.BlockNumber())); ab != want {
					fail("the longer chain does not win: (%s, %s) = %d", names[i], names[j], ab)
				}
				continue
			}
			av, bv := a.VRFOutput(), b.VRFOutput()
			if len(av) > 0 && len(bv) > 0 {
				if want := -new(big.Int).SetBytes(av).Cmp(new(big.Int).SetBytes(bv)); ab != want {
					fail("a tie does not go to the lower VRF output: (%s, %s) = %d, want %d", names[i], names[j], ab, want)
				}
			}
		}
	}
	for i, a := range tips {
		for j, b := range tips {
			ab := sel.Compare(a, b)
			if ab < 0 {
				continue
			}
			for k, c := range tips {
				if bc := sel.Compare(b, c); bc >= 0 {
					ac := sel.Compare(a, c)
					if ac < 0 || ((ab > 0 || bc > 0) && ac == 0) {
						fail("Compare is not transitive: (%s >= %s) = %d, (%s >= %s) = %d, but (%s, %s) = %d", names[i], names[j], ab, names[j], names[k], bc, names[i], names[k], ac)
					}
				}
			}
		}
	}
	// the preferred candidate is maximal whatever the order of the candidates
	n := len(tips)
	for i := 0; i < n; i++ {
		for j := 0; j < n; j++ {
			for k := 0; k < n; k++ {
				if i == j || j == k || i == k {
					continue
				}
				cands := []consensus.ChainTip{tips[i], tips[j], tips[k]}
				best := sel.Preferred(cands)
				for _, c := range cands {
					if sel.Compare(c, best) > 0 {
						fail("Preferred([%s, %s, %s]) is not maximal", names[i], names[j], names[k])
					}
				}
			}
		}
	}
	if !violated {
		t.Logf("VERIF-REPLAY: holds for %d tips (all pairs, triples and candidate orders)", n)
	}
}
