// replay-pkg: protocol/chainsync
//
// Replay harness for C22 (chain-sync wrapping preserves block and header identity). Injected into
// /repo with `go test -overlay`; never part of the repository. The obligations say the served header
// is the first raw item of the block as the decoder split it. The harness concretises the input class
// they quantify over - every encoding form of the block's outer list header (minimal, 1-, 2-, 4-, 8-byte
// length, indefinite) and every item count / header era a block can have - and judges the real constructor by the property statement: the served header
// bytes must be the block's first item, and the node-to-client message must keep type and bytes.
package chainsync_test

import (
	"bytes"
	"testing"

	"github.com/blinklabs-io/gouroboros/protocol/chainsync"
	pcommon "github.com/blinklabs-io/gouroboros/protocol/common"
)

func TestVerifReplay(t *testing.T) {
	first := []byte{0x83, 0x01, 0x42, 0xaa, 0xbb, 0x18, 0x2a} // [1, h'aabb', 42]
	rest := []byte{0x80, 0xa0, 0xf6, 0x05}                   // [], {}, null, 5
	forms := map[string][]byte{
		"minimal header":        {0x85},
		"one-byte length":       {0x98, 0x05},
		"two-byte length":       {0x99, 0x00, 0x05},
		"four-byte length":      {0x9a, 0x00, 0x00, 0x00, 0x05},
		"eight-byte length":     {0x9b, 0, 0, 0, 0, 0, 0, 0, 0x05},
		"indefinite-length list": {0x9f},
	}
	violated := false
	// every item count a block of some era has (Dijkstra: 2, Byron: 3, Shelley..Mary: 4,
	// Alonzo..Conway: 5) with every non-Byron header era, minimal outer header
	items := [][]byte{{0x80}, {0xa0}, {0xf6}, {0x05}, {0x41, 0x07}}
	for n := 1; n <= 6; n++ {
		for era := uint(1); era <= 7; era++ {
			block := append([]byte{0x80 + byte(n)}, first...)
			for i := 1; i < n; i++ {
				block = append(block, items[(i-1)%len(items)]...)
			}
			w, err := chainsync.NewWrappedHeader(era, 0, block)
			if err != nil {
				continue
			}
			if !bytes.Equal(w.HeaderCbor(), first) {
				t.Errorf("VERIF-REPLAY: violated: %d-item block, header era %d: served header %x is not the block's first item %x", n, era, w.HeaderCbor(), first)
				violated = true
			}
		}
	}
	for name, hdr := range forms {
		block := append(append(append([]byte{}, hdr...), first...), rest...)
		if hdr[0] == 0x9f {
			block = append(block, 0xff)
		}
		w, err := chainsync.NewWrappedHeader(1, 0, block)
		if err != nil {
			t.Logf("VERIF-REPLAY: %s: rejected (%v)", name, err)
			continue
		}
		if !bytes.Equal(w.HeaderCbor(), first) {
			t.Errorf("VERIF-REPLAY: violated: block with %s: served header %x is not the block's first item %x", name, w.HeaderCbor(), first)
			violated = true
		}
		m, err := chainsync.NewMsgRollForwardNtC(5, block, pcommon.Tip{})
		if err == nil && (m.BlockType() != 5 || !bytes.Equal(m.BlockCbor(), block)) {
			t.Errorf("VERIF-REPLAY: violated: node-to-client message does not keep type/bytes for %s", name)
			violated = true
		}
	}
	if !violated {
		t.Log("VERIF-REPLAY: holds for every outer header form")
	}
}
