// replay-pkg: ledger/common
//
// Replay harness for C02 (decoders are total on arbitrary bytes), package ledger/common. Injected
// into /repo with `go test -overlay`; never part of the repository. The record of the failed
// obligation names the function; the harness drives that function (all swept functions when the
// name is unknown) on the input class the obligation is about - every CBOR head byte with every
// additional-information value, followed by adversarial length bytes, truncated at every position,
// plus the byte-slice length of the verifier's model when it is small - and judges the real code by
// the property statement: it must not panic, and a length it takes from the input must not exceed
// both 65535 and the input length. This is a concretisation of the counterexample class, not a proof.
package common

import (
	"encoding/hex"
	"encoding/json"
	"fmt"
	"os"
	"strings"
	"testing"
)

type c02Record struct {
	Function   string            `json:"function"`
	Obligation string            `json:"obligation"`
	Inputs     map[string]string `json:"inputs"`
}

func c02Inputs(modelLen int) [][]byte {
	var out [][]byte
	tails := [][]byte{
		{}, {0x00}, {0xff}, {0x01}, {0x00, 0x00}, {0xff, 0xff}, {0x00, 0x01}, {0x7f, 0xff, 0xff, 0xff},
		{0x00, 0x00, 0x00, 0x00}, {0xff, 0xff, 0xff, 0xff}, {0x00, 0x00, 0x00, 0x01, 0x00},
		{0x7f, 0xff, 0xff, 0xff, 0xff, 0xff, 0xff, 0xff}, {0xff, 0xff, 0xff, 0xff, 0xff, 0xff, 0xff, 0xff},
		{0x00, 0x00, 0x00, 0x00, 0x00, 0x00, 0x00, 0x00}, {0x00, 0x00, 0x00, 0x00, 0x00, 0x00, 0x00, 0x02, 0x61, 0x61},
		{0x61, 0x61, 0x61, 0x62}, {0x01, 0x81, 0x00}, {0x81, 0x81, 0x81, 0x81, 0x00}, {0xa1, 0x00, 0xa1, 0x00, 0x00},
		{0x00, 0x9f, 0x00, 0xff}, {0x01, 0x82, 0x9f, 0xff, 0x9f}, {0x19, 0x01, 0x03, 0xa1, 0x00, 0x61, 0x61},
	}
	for h := 0; h < 256; h++ {
		for _, t := range tails {
			full := append([]byte{byte(h)}, t...)
			for cut := 1; cut <= len(full); cut++ {
				out = append(out, append([]byte(nil), full[:cut]...))
			}
		}
	}
	// two-level nesting: a container head followed by every head
	for _, outer := range []byte{0x81, 0x82, 0x98, 0x9f, 0xa1, 0xa2, 0xb8, 0xbf, 0xd9, 0xc2, 0x58, 0x78} {
		for h := 0; h < 256; h++ {
			for _, t := range [][]byte{{}, {0x01}, {0x01, 0x00}, {0x00, 0x00, 0x00, 0x01, 0x61}, {0xff}} {
				out = append(out, append([]byte{outer, byte(h)}, t...))
				out = append(out, append([]byte{outer, 0x01, byte(h)}, t...))
				out = append(out, append([]byte{outer, 0x01, 0x03, byte(h)}, t...))
			}
		}
	}
	if modelLen > 0 && modelLen <= 4096 {
		for _, fill := range []byte{0x00, 0xff, 0x81, 0xa1, 0x61, 0x9f, 0xbf} {
			b := make([]byte, modelLen)
			for i := range b {
				b[i] = fill
			}
			out = append(out, b)
		}
	}
	out = append(out, nil, []byte{})
	return out
}

func TestVerifReplay(t *testing.T) {
	var rec c02Record
	if p := os.Getenv("VERIF_REPLAY_FILE"); p != "" {
		if data, err := os.ReadFile(p); err == nil {
			_ = json.Unmarshal(data, &rec)
		}
	}
	modelLen := 0
	for k, v := range rec.Inputs {
		if strings.HasSuffix(k, ".len") && strings.HasPrefix(v, "#x") {
			var n uint64
			fmt.Sscanf(v[2:], "%x", &n)
			if n < 4096 {
				modelLen = int(n)
			}
		}
	}
	inputs := c02Inputs(modelLen)
	offsets := []int{0, 1, 2, 3, 5, 9}
	type target struct {
		name string
		run  func(b []byte, off int)
	}
	violated := false
	report := func(format string, args ...any) {
		if !violated {
			t.Errorf("VERIF-REPLAY: violated: "+format, args...)
		}
		violated = true
	}
	// a claimed length must be bounded: checked first, because an unbounded one makes the callers
	// below reserve memory for it (which kills the test process instead of failing it)
	for _, b := range inputs {
		for _, off := range offsets {
			for _, ty := range []byte{0x40, 0x60, 0x80, 0xa0} {
				func() {
					defer func() {
						if r := recover(); r != nil {
							report("decodeCBORDefiniteLength(%s, %d, %#x) panicked: %v", hex.EncodeToString(b), off, ty, r)
						}
					}()
					n, next, ok := decodeCBORDefiniteLength(b, off, ty)
					if ok && (n < 0 || (n > 65535 && n > len(b))) {
						report("decodeCBORDefiniteLength(%s, %d, %#x) returned the claimed length %d for %d input bytes", hex.EncodeToString(b), off, ty, n, len(b))
					}
					if ok && (next <= off || next > len(b)) {
						report("decodeCBORDefiniteLength(%s, %d, %#x) returned next offset %d outside the input", hex.EncodeToString(b), off, ty, next)
					}
				}()
			}
		}
		if violated {
			return
		}
	}
	targets := []target{
		{"decodeCBORTextString", func(b []byte, off int) {
			_, next, ok := decodeCBORTextString(b, off)
			if ok && (next <= off || next > len(b)) {
				panic(fmt.Sprintf("returned end offset %d outside the input", next))
			}
		}},
		{"decodeCBORItemEnd", func(b []byte, off int) {
			end, ok := decodeCBORItemEnd(b, off)
			if ok && (end <= off || end > len(b)) {
				panic(fmt.Sprintf("returned end offset %d outside the input", end))
			}
		}},
		{"decodeMapTextTextFast", func(b []byte, off int) { decodeMapTextTextFast(b) }},
		{"mapFirstKeyType", func(b []byte, off int) { mapFirstKeyType(b) }},
		{"decodeTag259Content", func(b []byte, off int) { decodeTag259Content(b) }},
		{"decodeAuxiliaryMetadataOnly", func(b []byte, off int) { decodeAuxiliaryMetadataOnly(b) }},
		{"DecodeMetadatumRaw", func(b []byte, off int) { _, _ = DecodeMetadatumRaw(b) }},
		{"cborArrayInfo", func(b []byte, off int) {
			c, h, ind := cborArrayInfo(b)
			if (c >= 0 || ind) && (h < 1 || int(h) > len(b)) {
				panic(fmt.Sprintf("header size %d outside the input", h))
			}
		}},
		{"cborMapInfo", func(b []byte, off int) {
			c, h, ind := cborMapInfo(b)
			if (c >= 0 || ind) && (h < 1 || int(h) > len(b)) {
				panic(fmt.Sprintf("header size %d outside the input", h))
			}
		}},
		{"extractOutputOffsets", func(b []byte, off int) { extractOutputOffsets(b, uint32(off), &TransactionLocation{}) }},
		{"extractByronOutputOffsets", func(b []byte, off int) { extractByronOutputOffsets(b, uint32(off), &TransactionLocation{}) }},
		{"extractWitnessComponentOffsets", func(b []byte, off int) {
			extractWitnessComponentOffsets(b, uint32(off), &TransactionLocation{})
		}},
		{"extractDatumOffsets", func(b []byte, off int) { extractDatumOffsets(b, uint32(off), map[Blake2b256]ByteRange{}) }},
		{"extractRedeemerMapOffsets", func(b []byte, off int) { extractRedeemerMapOffsets(b, uint32(off), map[RedeemerKey]ByteRange{}) }},
		{"extractRedeemerArrayOffsets", func(b []byte, off int) { extractRedeemerArrayOffsets(b, uint32(off), map[RedeemerKey]ByteRange{}) }},
		{"extractScriptArrayOffsets", func(b []byte, off int) { extractScriptArrayOffsets(b, uint32(off), 0, map[ScriptHash]ByteRange{}) }},
		{"extractMetadataOffsets", func(b []byte, off int) {
			_ = extractMetadataOffsets(b, uint32(off), map[uint32]struct {
				offset uint32
				length uint32
			}{})
		}},
		{"ExtractTransactionOffsets", func(b []byte, off int) { _, _ = ExtractTransactionOffsets(b) }},
	}
	want := rec.Function
	if i := strings.LastIndex(want, "."); i >= 0 {
		want = want[i+1:]
	}
	known := false
	for _, tg := range targets {
		if tg.name == want {
			known = true
		}
	}
	for _, tg := range targets {
		if known && tg.name != want {
			continue
		}
		for _, b := range inputs {
			offs := []int{0}
			if tg.name == "decodeCBORTextString" || tg.name == "decodeCBORItemEnd" {
				offs = offsets
			}
			for _, off := range offs {
				func() {
					defer func() {
						if r := recover(); r != nil {
							report("%s on input %s (offset %d): %v", tg.name, hex.EncodeToString(b), off, r)
						}
					}()
					tg.run(b, off)
				}()
				if violated {
					return
				}
			}
		}
	}
	t.Logf("VERIF-REPLAY: %d inputs, function %q: no panic and no out-of-range result on the real code", len(inputs), want)
}
