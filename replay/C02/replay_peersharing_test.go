// replay-pkg: protocol/peersharing
//
// Replay harness for C02, package protocol/peersharing: PeerAddress.UnmarshalCBOR on well-formed and
// malformed address lists of every supported shape; a violation is a panic of the real decoder.
package peersharing

import (
	"encoding/hex"
	"testing"
)

func TestVerifReplay(t *testing.T) {
	inputs := []string{
		"83001a7f00000119ffff",                         // [0, addr, port]
		"86011a000000011a000000021a000000031a0000000419ffff", // [1, a1..a4, port]  (v13+)
		"88011a000000011a000000021a000000031a000000040000190bb9", // [1, a1..a4, flow, scope, port]
		"8200", "8201", "80", "8101", "9f00ff", "9f01ff", "830000", "8601000000000000", "880100000000000000000000",
		"8301f6f6", "8600f6f6f6f6f6", "", "ff", "a0",
	}
	for _, h := range inputs {
		b, _ := hex.DecodeString(h)
		func() {
			defer func() {
				if r := recover(); r != nil {
					t.Errorf("VERIF-REPLAY: violated: PeerAddress.UnmarshalCBOR on input %s: %v", h, r)
				}
			}()
			var p PeerAddress
			_ = p.UnmarshalCBOR(b)
		}()
	}
}
