// replay-pkg: cbor
//
// Replay harness for C02, package cbor: drives the hand-written byte-level readers of the package on
// the input class of a failed safety obligation (every head byte x adversarial length bytes x every
// truncation; extreme integer arguments for the offset / length parameters) and reports a violation
// when the real code panics. A concretisation of the counterexample class, not a proof.
package cbor

import (
	"encoding/hex"
	"math"
	"testing"
)

func c02CborInputs() [][]byte {
	var out [][]byte
	tails := [][]byte{
		{}, {0x00}, {0xff}, {0x00, 0x00}, {0xff, 0xff}, {0x7f, 0xff, 0xff, 0xff}, {0xff, 0xff, 0xff, 0xff},
		{0x00, 0x00, 0x00, 0x00, 0x01}, {0x7f, 0xff, 0xff, 0xff, 0xff, 0xff, 0xff, 0xff},
		{0xff, 0xff, 0xff, 0xff, 0xff, 0xff, 0xff, 0xff}, {0x00, 0x00, 0x00, 0x00, 0x00, 0x00, 0x00, 0x01, 0x00},
		{0x01, 0x02, 0x03}, {0x18, 0x2a}, {0x19, 0x01, 0x00}, {0x1b, 0, 0, 0, 0, 0, 0, 0, 5},
	}
	for h := 0; h < 256; h++ {
		for _, t := range tails {
			full := append([]byte{byte(h)}, t...)
			for cut := 1; cut <= len(full); cut++ {
				out = append(out, append([]byte(nil), full[:cut]...))
			}
		}
	}
	return append(out, nil, []byte{})
}

func TestVerifReplay(t *testing.T) {
	violated := false
	report := func(format string, args ...any) {
		if !violated {
			t.Errorf("VERIF-REPLAY: violated: "+format, args...)
		}
		violated = true
	}
	guard := func(what string, b []byte, f func()) {
		defer func() {
			if r := recover(); r != nil {
				report("%s on input %s: %v", what, hex.EncodeToString(b), r)
			}
		}()
		f()
	}
	ints := []int{0, 1, 2, 7, 8, -1, math.MinInt64, math.MaxInt64, math.MaxInt64 - 1, math.MaxInt64 - 7, 1 << 62, -(1 << 62)}
	for _, b := range c02CborInputs() {
		guard("ArrayInfo", b, func() { ArrayInfo(b) })
		guard("MapInfo", b, func() { MapInfo(b) })
		guard("ListLength", b, func() { _, _ = ListLength(b) })
		guard("ParseDiagnostic", b, func() { _, _ = ParseDiagnostic(b) })
		for _, pre := range [][]byte{{0x81}, {0x9f}, {0xa1, 0x00}, {0xbf}, {0xc1}, {0x5f}, {0x7f}, {0xd9, 0x01, 0x02}} {
			nested := append(append([]byte(nil), pre...), b...)
			guard("ParseDiagnostic", nested, func() { _, _ = ParseDiagnostic(nested) })
		}
		guard("DecodeIdFromList", b, func() { _, _ = DecodeIdFromList(b) })
		for _, off := range []int{0, 1, 2, 9} {
			guard("cborArrayHeaderSizeFromBytes", b, func() { _, _ = cborArrayHeaderSizeFromBytes(b, off) })
		}
		guard("StreamDecoder", b, func() {
			for _, n := range ints {
				d, err := NewStreamDecoder(b)
				if err != nil {
					return
				}
				_ = d.Advance(n)
				_, _, _, _ = d.DecodeArrayHeader()
				_, _, _, _ = d.DecodeMapHeader()
				for _, m := range ints {
					_ = d.RawBytes(n, m)
				}
				_, _, _ = d.SkipN(n % 4)
			}
			d, err := NewStreamDecoder(b)
			if err == nil {
				_, _, _ = d.DecodeArrayItems(func(int, int, int, []byte) error { return nil })
			}
		})
		if violated {
			return
		}
	}
	t.Logf("VERIF-REPLAY: no panic on the real code")
}
