// replay-pkg: ledger/common
//
// Replay harness for C07 (transaction byte offsets point at the decoded components). Injected into
// /repo with `go test -overlay`; never part of the repository. A failed obligation says that an offset
// extractor steps over a container header with a size that is not the size of the header actually
// present. The harness concretises that input class: generated Shelley-layout and Byron-layout blocks
// in which the block array, the transaction-body array, the witness array and the output arrays (Byron:
// also the body, payload and pair arrays) are each encoded with every admissible header form - minimal,
// 1-, 2-, 4- and 8-byte lengths, indefinite length - and judges the real extractor by the property
// statement: every reported range must slice out exactly the bytes of the component it is reported for
// and must lie inside the block.
package common

import (
	"bytes"
	"encoding/binary"
	"encoding/hex"
	"testing"
)

var c07Forms = []string{"min", "1", "2", "4", "8", "indef"}

func c07Arr(form string, items ...[]byte) []byte {
	n := len(items)
	var out []byte
	switch form {
	case "min":
		out = []byte{0x80 | byte(n)}
	case "1":
		out = []byte{0x98, byte(n)}
	case "2":
		out = []byte{0x99, 0, byte(n)}
	case "4":
		out = []byte{0x9a, 0, 0, 0, byte(n)}
	case "8":
		out = make([]byte, 9)
		out[0] = 0x9b
		binary.BigEndian.PutUint64(out[1:], uint64(n))
	case "indef":
		out = []byte{0x9f}
	}
	for _, it := range items {
		out = append(out, it...)
	}
	if form == "indef" {
		out = append(out, 0xff)
	}
	return out
}

func c07Check(t *testing.T, what string, block []byte, r ByteRange, want []byte) bool {
	end := uint64(r.Offset) + uint64(r.Length)
	if end > uint64(len(block)) {
		t.Errorf("VERIF-REPLAY: violated: %s: range %d+%d lies outside the block (%d bytes): %s", what, r.Offset, r.Length, len(block), hex.EncodeToString(block))
		return false
	}
	if got := block[r.Offset:end]; !bytes.Equal(got, want) {
		t.Errorf("VERIF-REPLAY: violated: %s: range %d+%d slices out %x, the component is %x; block %s", what, r.Offset, r.Length, got, want, hex.EncodeToString(block))
		return false
	}
	return true
}

func TestVerifReplay(t *testing.T) {
	outA := []byte{0x82, 0x41, 0x61, 0x01}       // [h'61', 1]
	outB := []byte{0x82, 0x41, 0x62, 0x19, 1, 0} // [h'62', 256]
	wit0, wit1 := []byte{0xa0}, []byte{0xa1, 0x00, 0x80}
	n := 0
	// Shelley+ layout: [header, [body...], [witness...], {metadata}]
	for _, fBlock := range c07Forms {
		for _, fBodies := range c07Forms {
			for _, fWits := range c07Forms {
				for _, fOuts := range c07Forms {
					outs := c07Arr(fOuts, outA, outB)
					body0 := append([]byte{0xa2, 0x00, 0x80, 0x01}, outs...) // {0: [], 1: outputs}
					body1 := []byte{0xa1, 0x02, 0x05}                        // {2: 5}
					block := c07Arr(fBlock, []byte{0x00}, c07Arr(fBodies, body0, body1), c07Arr(fWits, wit0, wit1), []byte{0xa0})
					n++
					r, err := ExtractTransactionOffsets(block)
					if err != nil {
						t.Errorf("VERIF-REPLAY: violated: extraction failed on a well-formed block (%s/%s/%s/%s): %v", fBlock, fBodies, fWits, fOuts, err)
						return
					}
					if len(r.Transactions) != 2 {
						t.Errorf("VERIF-REPLAY: violated: %d transactions reported, 2 encoded (%s/%s/%s/%s)", len(r.Transactions), fBlock, fBodies, fWits, fOuts)
						return
					}
					tag := "block=" + fBlock + " bodies=" + fBodies + " witnesses=" + fWits + " outputs=" + fOuts
					ok := c07Check(t, tag+" body 0", block, r.Transactions[0].Body, body0) &&
						c07Check(t, tag+" body 1", block, r.Transactions[1].Body, body1) &&
						c07Check(t, tag+" witness 0", block, r.Transactions[0].Witness, wit0) &&
						c07Check(t, tag+" witness 1", block, r.Transactions[1].Witness, wit1)
					if ok && len(r.Transactions[0].Outputs) == 2 {
						ok = c07Check(t, tag+" output 0", block, r.Transactions[0].Outputs[0], outA) &&
							c07Check(t, tag+" output 1", block, r.Transactions[0].Outputs[1], outB)
					} else if ok {
						t.Errorf("VERIF-REPLAY: violated: %s: %d outputs reported, 2 encoded", tag, len(r.Transactions[0].Outputs))
						ok = false
					}
					if !ok {
						return
					}
					// the streaming variant of the extractor must report the same ranges
					sd, err := NewStreamingBlockDecoder(block)
					if err != nil {
						t.Errorf("VERIF-REPLAY: violated: %s: streaming decoder: %v", tag, err)
						return
					}
					sr, err := sd.DecodeWithOffsets()
					if err != nil || len(sr.Transactions) != 2 {
						t.Errorf("VERIF-REPLAY: violated: %s: streaming extraction failed or miscounted: %v", tag, err)
						return
					}
					ok = c07Check(t, tag+" (streaming) body 0", block, sr.Transactions[0].Body, body0) &&
						c07Check(t, tag+" (streaming) body 1", block, sr.Transactions[1].Body, body1) &&
						c07Check(t, tag+" (streaming) witness 0", block, sr.Transactions[0].Witness, wit0) &&
						c07Check(t, tag+" (streaming) witness 1", block, sr.Transactions[1].Witness, wit1)
					if ok && len(sr.Transactions[0].Outputs) == 2 {
						ok = c07Check(t, tag+" (streaming) output 0", block, sr.Transactions[0].Outputs[0], outA) &&
							c07Check(t, tag+" (streaming) output 1", block, sr.Transactions[0].Outputs[1], outB)
					}
					if !ok {
						return
					}
				}
			}
		}
	}
	// Byron layout: [header, [[ [txbody, witnesses] ... ], ssc, dlg, upd], extra]
	for _, fBlock := range c07Forms {
		for _, fBody := range c07Forms {
			for _, fPayload := range c07Forms {
				for _, fPair := range c07Forms {
					for _, fOuts := range []string{"min", "1", "indef"} {
						outs := c07Arr(fOuts, outA, outB)
						txBody := c07Arr("min", []byte{0x80}, outs, []byte{0xa0})
						txWits := []byte{0x80}
						pair := c07Arr(fPair, txBody, txWits)
						payload := c07Arr(fPayload, pair)
						block := c07Arr(fBlock, []byte{0x00}, c07Arr(fBody, payload, []byte{0x00}, []byte{0x00}, []byte{0x00}), []byte{0x80})
						n++
						r, err := ExtractTransactionOffsets(block)
						if err != nil || len(r.Transactions) != 1 {
							t.Errorf("VERIF-REPLAY: violated: Byron extraction failed or miscounted (%s/%s/%s/%s/%s): %v", fBlock, fBody, fPayload, fPair, fOuts, err)
							return
						}
						tag := "byron block=" + fBlock + " body=" + fBody + " payload=" + fPayload + " pair=" + fPair + " outputs=" + fOuts
						ok := c07Check(t, tag+" tx body", block, r.Transactions[0].Body, txBody) &&
							c07Check(t, tag+" tx witnesses", block, r.Transactions[0].Witness, txWits)
						if ok && len(r.Transactions[0].Outputs) == 2 {
							ok = c07Check(t, tag+" output 0", block, r.Transactions[0].Outputs[0], outA) &&
								c07Check(t, tag+" output 1", block, r.Transactions[0].Outputs[1], outB)
						}
						if !ok {
							return
						}
					}
				}
			}
		}
	}
	t.Logf("VERIF-REPLAY: %d generated blocks: every reported range slices out its component on the real code", n)
}
