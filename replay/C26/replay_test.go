// replay-pkg: ledger/conway
//
// Replay harness for C26 (validity interval). Injected into /repo with `go test -overlay`;
// never part of the repository. Reads the solver model from $VERIF_REPLAY_FILE, builds a
// transaction stub with the model's bounds, calls the REAL rule of the era named by the failed
// obligation and judges the result against the property statement (not against the contract).
package conway_test

import (
	"encoding/json"
	"os"
	"strconv"
	"strings"
	"testing"

	"github.com/blinklabs-io/gouroboros/ledger/allegra"
	"github.com/blinklabs-io/gouroboros/ledger/alonzo"
	"github.com/blinklabs-io/gouroboros/ledger/babbage"
	"github.com/blinklabs-io/gouroboros/ledger/common"
	"github.com/blinklabs-io/gouroboros/ledger/conway"
	"github.com/blinklabs-io/gouroboros/ledger/mary"
	"github.com/blinklabs-io/gouroboros/ledger/shelley"
)

type replayTx struct {
	common.Transaction
	ttl, start uint64
}

func (t replayTx) TTL() uint64                   { return t.ttl }
func (t replayTx) ValidityIntervalStart() uint64 { return t.start }

func bv(s string) (uint64, bool) {
	s = strings.TrimSpace(s)
	if strings.HasPrefix(s, "#x") {
		v, err := strconv.ParseUint(s[2:], 16, 64)
		return v, err == nil
	}
	if strings.HasPrefix(s, "#b") {
		v, err := strconv.ParseUint(s[2:], 2, 64)
		return v, err == nil
	}
	if strings.HasPrefix(s, "(_ bv") {
		f := strings.Fields(s[5:])
		v, err := strconv.ParseUint(f[0], 10, 64)
		return v, err == nil
	}
	return 0, false
}

func TestVerifReplay(t *testing.T) {
	data, err := os.ReadFile(os.Getenv("VERIF_REPLAY_FILE"))
	if err != nil {
		t.Skip("no replay record")
	}
	var rec struct {
		Function string            `json:"function"`
		Inputs   map[string]string `json:"inputs"`
	}
	if err := json.Unmarshal(data, &rec); err != nil {
		t.Fatal(err)
	}
	slot, ok := bv(rec.Inputs["slot"])
	if !ok {
		t.Log("VERIF-REPLAY: inconclusive (no slot in model)")
		return
	}
	var ttl, start uint64
	for k, v := range rec.Inputs {
		if strings.HasPrefix(k, "call:TTL@") {
			ttl, _ = bv(v)
		}
		if strings.HasPrefix(k, "call:ValidityIntervalStart@") {
			start, _ = bv(v)
		}
	}
	tx := replayTx{ttl: ttl, start: start}
	rules := map[string]func(common.Transaction, uint64, common.LedgerState, common.ProtocolParameters) error{
		"ledger/allegra.UtxoValidateOutsideValidityIntervalUtxo": allegra.UtxoValidateOutsideValidityIntervalUtxo,
		"ledger/mary.UtxoValidateOutsideValidityIntervalUtxo":    mary.UtxoValidateOutsideValidityIntervalUtxo,
		"ledger/alonzo.UtxoValidateOutsideValidityIntervalUtxo":  alonzo.UtxoValidateOutsideValidityIntervalUtxo,
		"ledger/babbage.UtxoValidateOutsideValidityIntervalUtxo": babbage.UtxoValidateOutsideValidityIntervalUtxo,
		"ledger/conway.UtxoValidateOutsideValidityIntervalUtxo":  conway.UtxoValidateOutsideValidityIntervalUtxo,
		"ledger/shelley.UtxoValidateTimeToLive":                  shelley.UtxoValidateTimeToLive,
	}
	rule, ok := rules[rec.Function]
	if !ok {
		t.Logf("VERIF-REPLAY: inconclusive (no rule for %s)", rec.Function)
		return
	}
	got := rule(tx, slot, nil, nil)
	// oracle, from the property statement
	var mustReject bool
	if rec.Function == "ledger/shelley.UtxoValidateTimeToLive" {
		mustReject = slot > ttl
	} else {
		mustReject = (start != 0 && slot < start) || (ttl != 0 && slot >= ttl)
	}
	t.Logf("function=%s slot=%d start=%d ttl=%d result=%v", rec.Function, slot, start, ttl, got)
	if mustReject && got == nil {
		t.Fatalf("VERIF-REPLAY: violated: %s accepted slot %d with validity start %d and upper bound %d", rec.Function, slot, start, ttl)
	}
	t.Log("VERIF-REPLAY: not reproduced")
}
