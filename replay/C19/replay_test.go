// replay-pkg: protocol/handshake
//
// Replay harness for C19 (a client never settles on a version it did not offer). Injected into /repo
// with `go test -overlay`; never part of the repository. The obligations of handleAcceptVersion say
// the finished callback is invoked only with a version the initiator proposed, with version data that
// that version's own decoder accepted, non-nil, and carrying the initiator's network magic. The
// harness concretises the input class they quantify over - acceptances of every version number in
// and around the three tables, with version data taken from every table entry under the right and a
// foreign magic, truncated, empty and of a foreign shape - against initiators that offered the whole
// NtN table, the whole NtC table or a two-version subset, and judges the real handler by the
// property statement.
package handshake

import (
	"net"
	"testing"

	"github.com/blinklabs-io/gouroboros/cbor"
	"github.com/blinklabs-io/gouroboros/connection"
	"github.com/blinklabs-io/gouroboros/protocol"
)

func TestVerifReplay(t *testing.T) {
	const magic = 764824073
	addr := &net.TCPAddr{IP: net.IPv4(127, 0, 0, 1), Port: 3001}
	connId := connection.ConnectionId{LocalAddr: addr, RemoteAddr: addr}
	ntn := protocol.GetProtocolVersionMap(protocol.ProtocolModeNodeToNode, magic, true, true, false)
	ntc := protocol.GetProtocolVersionMap(protocol.ProtocolModeNodeToClient, magic, false, false, false)
	sub := protocol.ProtocolVersionMap{}
	for v, d := range ntn {
		if v == 13 || v == 14 {
			sub[v] = d
		}
	}
	// candidate version data: every table entry under our magic and under a foreign one, plus junk
	var datas [][]byte
	for _, m := range []uint32{magic, magic + 1, 0} {
		for _, tbl := range []protocol.ProtocolVersionMap{
			protocol.GetProtocolVersionMap(protocol.ProtocolModeNodeToNode, m, true, true, false),
			protocol.GetProtocolVersionMap(protocol.ProtocolModeNodeToClient, m, false, false, false),
			protocol.GetProtocolVersionMap(protocol.ProtocolModeNodeToClient, m, false, false, true),
		} {
			seen := map[string]bool{}
			for _, d := range tbl {
				enc, err := cbor.Encode(&d)
				if err == nil && !seen[string(enc)] {
					seen[string(enc)] = true
					datas = append(datas, enc)
				}
			}
		}
	}
	datas = append(datas, nil, []byte{}, []byte{0xf6}, []byte{0x80}, []byte{0x84, 0x01}, []byte{0xa0}, []byte{0x1a, 0x2d, 0x96, 0x4a, 0x09})
	var versions []uint16
	for v := uint16(0); v <= 20; v++ {
		versions = append(versions, v, v+protocol.ProtocolVersionNtCOffset, v+0x1000)
	}
	violated, finished := false, 0
	for name, offered := range map[string]protocol.ProtocolVersionMap{"the NtN table": ntn, "the NtC table": ntc, "versions 13 and 14": sub} {
		for _, v := range versions {
			for _, data := range datas {
				called := false
				var gotV uint16
				var gotD protocol.VersionData
				cfg := NewConfig(WithProtocolVersionMap(offered), WithFinishedFunc(func(_ CallbackContext, ver uint16, d protocol.VersionData) error {
					called, gotV, gotD = true, ver, d
					return nil
				}))
				mode := protocol.ProtocolModeNodeToNode
				if name == "the NtC table" {
					mode = protocol.ProtocolModeNodeToClient
				}
				c := NewClient(protocol.ProtocolOptions{ConnectionId: connId, Mode: mode, Role: protocol.ProtocolRoleClient}, &cfg)
				msg := &MsgAcceptVersion{MessageBase: protocol.MessageBase{MessageType: MessageTypeAcceptVersion}, Version: v, VersionData: cbor.RawMessage(data)}
				err := c.handleAcceptVersion(msg)
				if !called {
					if err == nil {
						t.Errorf("VERIF-REPLAY: violated: initiator offering %s treats the acceptance of version %d with data %x as success without finishing", name, v, data)
						violated = true
					}
					continue
				}
				finished++
				why := ""
				prop, ok := offered[v]
				dec := protocol.GetProtocolVersion(v).NewVersionDataFromCborFunc
				switch {
				case !ok || gotV != v:
					why = "a version that was not offered"
				case dec == nil:
					why = "a version without a decoder"
				default:
					d, derr := dec(data)
					if derr != nil || d == nil || gotD == nil {
						why = "version data its own decoder rejects"
					} else if prop != nil && gotD.NetworkMagic() != prop.NetworkMagic() {
						why = "a foreign network magic"
					}
				}
				if why != "" {
					t.Errorf("VERIF-REPLAY: violated: initiator offering %s completes the handshake on the acceptance of version %d with data %x: %s", name, v, data, why)
					violated = true
				}
			}
		}
	}
	if finished == 0 {
		t.Fatalf("no acceptance completes: the harness checks nothing")
	}
	if !violated {
		t.Logf("VERIF-REPLAY: holds; %d acceptances completed, all with an offered version, decodable data and the initiator's magic", finished)
	}
}
