// replay-pkg: pipeline
//
// Replay harness for C44 (a failed submission does not stall later blocks). Injected into /repo with
// `go test -overlay`; never part of the repository. The failed obligation says Submit can return an
// error on a path on which it has already consumed a sequence number. The concrete history: the
// apply callback is held, the pipeline (1 decode worker, buffer 1) is filled until a submission
// blocks, that submission's context expires (Submit returns an error), the apply callback is
// released and one more block is submitted successfully. Oracle = the property statement: every
// successfully submitted block must be applied.
package pipeline

import (
	"context"
	"sync"
	"sync/atomic"
	"testing"
	"time"

	"github.com/blinklabs-io/gouroboros/ledger"
)

func TestVerifReplay(t *testing.T) {
	rawCbor := getValidBlockCbor(t)
	hold := make(chan struct{})
	var applied atomic.Int64
	var once sync.Once
	p := NewBlockPipeline(
		WithDecodeWorkers(1),
		WithPrefetchBufferSize(1),
		WithSkipBodyHashValidation(true),
		WithApplyFunc(func(item *BlockItem) error {
			<-hold
			applied.Add(1)
			return nil
		}),
	)
	if err := p.Start(context.Background()); err != nil {
		t.Fatal(err)
	}
	defer func() { once.Do(func() { close(hold) }); p.Stop() }()
	go func() {
		for range p.Results() {
		}
	}()
	go func() {
		for range p.Errors() {
		}
	}()
	ok := 0
	failed := 0
	// fill the pipeline until a submission times out
	for i := 0; i < 64 && failed == 0; i++ {
		ctx, cancel := context.WithTimeout(context.Background(), 300*time.Millisecond)
		err := p.Submit(ctx, uint(ledger.BlockTypeConway), rawCbor, createTestTip(uint64(1000+i), uint64(i)))
		cancel()
		if err != nil {
			failed++
		} else {
			ok++
		}
	}
	if failed == 0 {
		t.Log("VERIF-REPLAY: inconclusive (the pipeline never applied backpressure)")
		return
	}
	// release the apply stage and submit one more block, which succeeds
	once.Do(func() { close(hold) })
	deadline := time.Now().Add(5 * time.Second)
	for {
		ctx, cancel := context.WithTimeout(context.Background(), time.Second)
		err := p.Submit(ctx, uint(ledger.BlockTypeConway), rawCbor, createTestTip(5000, 5000))
		cancel()
		if err == nil {
			ok++
			break
		}
		if time.Now().After(deadline) {
			t.Log("VERIF-REPLAY: inconclusive (no later submission succeeded)")
			return
		}
	}
	// every successful submission must be applied
	deadline = time.Now().Add(5 * time.Second)
	for applied.Load() < int64(ok) && time.Now().Before(deadline) {
		time.Sleep(20 * time.Millisecond)
	}
	if got := applied.Load(); got < int64(ok) {
		t.Errorf("VERIF-REPLAY: violated: %d blocks were submitted successfully (one of them after a submission failed with an expired context) but only %d were applied within 5s", ok, got)
		return
	}
	t.Logf("VERIF-REPLAY: holds (%d submitted, %d applied, %d failed submissions)", ok, applied.Load(), failed)
}
