// replay-pkg: ledger/byron
//
// Replay harness for C35 (Byron merkle roots follow the reference construction). Injected into /repo
// with `go test -overlay`; never part of the repository. The obligations say the split point is the
// largest power of two strictly below the item count, that a leaf hashes tag 0 followed by the item
// and a branch tag 1 followed by its two sub-roots, and that the empty list hashes the empty string.
// The harness concretises the input class they quantify over - item lists of length 0..130 (past
// several powers of two) with items of different lengths, including empty ones - and compares the
// real function with an independent construction written from the property statement.
package byron_test

import (
	"testing"

	"golang.org/x/crypto/blake2b"

	"github.com/blinklabs-io/gouroboros/ledger/byron"
)

func c35Ref(items [][]byte) [32]byte {
	if len(items) == 0 {
		return blake2b.Sum256(nil)
	}
	if len(items) == 1 {
		return blake2b.Sum256(append([]byte{0}, items[0]...))
	}
	split := 1
	for split*2 < len(items) {
		split *= 2
	}
	l, r := c35Ref(items[:split]), c35Ref(items[split:])
	buf := append([]byte{1}, l[:]...)
	buf = append(buf, r[:]...)
	return blake2b.Sum256(buf)
}

func TestVerifReplay(t *testing.T) {
	violated := false
	for n := 0; n <= 130; n++ {
		items := make([][]byte, n)
		for i := range items {
			it := make([]byte, (i*7+n)%40)
			for j := range it {
				it[j] = byte(i*31 + j*17 + n)
			}
			items[i] = it
		}
		got := byron.MerkleRoot(items)
		want := c35Ref(items)
		if [32]byte(got) != want {
			t.Errorf("VERIF-REPLAY: violated: MerkleRoot of %d items = %x, the reference construction gives %x", n, got[:], want[:])
			violated = true
		}
	}
	if !violated {
		t.Log("VERIF-REPLAY: holds for lists of 0..130 items")
	}
}
