// replay-pkg: protocol
//
// Replay harness for C12 (outbound messages keep their order and drive the state machine in that
// order). Injected into /repo with `go test -overlay`; never part of the repository. A failed
// obligation of sendLoop says that a parked state transition is not the oldest one, that the queue of
// parked transitions loses its order, or that a segment goes out before the state machine accepted the
// batch's first message. The harness concretises that input class on two real Protocol instances over
// two real muxers: a client queues a pipelined batch of several requests followed by the terminating
// message while the server still holds agency, so that the whole batch is picked up at once and all
// but the first transition are parked; the order in which the messages drive the client's state
// machine (observed through the transitions' match functions) must be the queue order, interleaved with
// the replies, and both ends must finish in the terminal state without an error.
package protocol

import (
	"fmt"
	"net"
	"sync"
	"testing"
	"time"

	"github.com/blinklabs-io/gouroboros/cbor"
	"github.com/blinklabs-io/gouroboros/muxer"
)

type c12Msg struct {
	MessageBase
	Seq uint
}

type c12Trace struct {
	mu sync.Mutex
	l  []string
}

func (t *c12Trace) add(s string) { t.mu.Lock(); t.l = append(t.l, s); t.mu.Unlock() }
func (t *c12Trace) get() []string {
	t.mu.Lock()
	defer t.mu.Unlock()
	return append([]string(nil), t.l...)
}

func c12FromCbor(msgType uint, data []byte) (Message, error) {
	ret := &c12Msg{}
	if _, err := cbor.Decode(data, ret); err != nil {
		return nil, err
	}
	ret.SetCbor(data)
	return ret, nil
}

func c12Label(m Message) string {
	return fmt.Sprintf("%s%d", []string{"hello", "req", "resp", "bye"}[m.Type()], m.(*c12Msg).Seq)
}

func TestVerifReplay(t *testing.T) {
	stInit, stIdle, stBusy, stDone := NewState(1, "Init"), NewState(2, "Idle"), NewState(3, "Busy"), NewState(4, "Done")
	rec := func(ctx any, m Message) bool { ctx.(*c12Trace).add(c12Label(m)); return true }
	mkMap := func() StateMap {
		return StateMap{
			stInit: StateMapEntry{Agency: AgencyServer, Transitions: []StateTransition{{MsgType: 0, NewState: stIdle, MatchFunc: rec}}},
			stIdle: StateMapEntry{Agency: AgencyClient, Transitions: []StateTransition{{MsgType: 1, NewState: stBusy, MatchFunc: rec}, {MsgType: 3, NewState: stDone, MatchFunc: rec}}},
			stBusy: StateMapEntry{Agency: AgencyServer, Transitions: []StateTransition{{MsgType: 2, NewState: stIdle, MatchFunc: rec}}},
			stDone: StateMapEntry{Agency: AgencyNone},
		}
	}
	for _, nReq := range []int{1, 2, 3, 4, 6} {
		cc, sc := net.Pipe()
		cm, sm := muxer.New(cc), muxer.New(sc)
		cm.Start()
		sm.Start()
		cErr, sErr := make(chan error, 10), make(chan error, 10)
		cTrace, sTrace := &c12Trace{}, &c12Trace{}
		done := make(chan struct{}, 1)
		var server *Protocol
		client := New(ProtocolConfig{Name: "c12", ProtocolId: 997, ErrorChan: cErr, Muxer: cm, Mode: ProtocolModeNodeToNode, Role: ProtocolRoleClient,
			MessageFromCborFunc: c12FromCbor, StateMap: mkMap(), StateContext: cTrace, InitialState: stInit,
			MessageHandlerFunc: func(Message) error { return nil }})
		server = New(ProtocolConfig{Name: "c12", ProtocolId: 997, ErrorChan: sErr, Muxer: sm, Mode: ProtocolModeNodeToNode, Role: ProtocolRoleServer,
			MessageFromCborFunc: c12FromCbor, StateMap: mkMap(), StateContext: sTrace, InitialState: stInit,
			MessageHandlerFunc: func(m Message) error {
				switch m.Type() {
				case 1:
					return server.SendMessage(&c12Msg{MessageBase: MessageBase{MessageType: 2}, Seq: m.(*c12Msg).Seq})
				case 3:
					done <- struct{}{}
				}
				return nil
			}})
		client.Start()
		server.Start()
		// queue the whole batch while the server still holds agency
		var want []string
		want = append(want, "hello0")
		for i := 1; i <= nReq; i++ {
			go func(i int) {}(i)
			if err := client.SendMessage(&c12Msg{MessageBase: MessageBase{MessageType: 1}, Seq: uint(i)}); err != nil {
				t.Fatalf("VERIF-REPLAY: violated: queueing request %d failed: %v", i, err)
			}
			want = append(want, fmt.Sprintf("req%d", i), fmt.Sprintf("resp%d", i))
		}
		if err := client.SendMessage(&c12Msg{MessageBase: MessageBase{MessageType: 3}, Seq: uint(nReq + 1)}); err != nil {
			t.Fatalf("VERIF-REPLAY: violated: queueing the final message failed: %v", err)
		}
		want = append(want, fmt.Sprintf("bye%d", nReq+1))
		time.Sleep(50 * time.Millisecond)
		if err := server.SendMessage(&c12Msg{MessageBase: MessageBase{MessageType: 0}}); err != nil {
			t.Fatalf("server hello: %v", err)
		}
		fail := ""
		select {
		case <-done:
		case err := <-cErr:
			fail = fmt.Sprintf("client error: %v", err)
		case err := <-sErr:
			fail = fmt.Sprintf("server error: %v", err)
		case <-time.After(8 * time.Second):
			fail = "the conversation did not finish"
		}
		time.Sleep(50 * time.Millisecond)
		got := cTrace.get()
		cm.Stop()
		sm.Stop()
		_ = cc.Close()
		_ = sc.Close()
		if fail == "" && fmt.Sprint(got) != fmt.Sprint(want) {
			fail = "client transitions out of order"
		}
		if fail != "" {
			t.Fatalf("VERIF-REPLAY: violated: batch of %d pipelined requests + final message: %s; the client's state machine was driven by %v, queue order with replies is %v", nReq, fail, got, want)
		}
	}
	t.Logf("VERIF-REPLAY: pipelined batches drive the state machine in queue order on the real code")
}
