// replay-pkg: ledger/common
//
// Replay harness for C29 (native scripts evaluate as the ledger defines them). Injected into /repo
// with `go test -overlay`; never part of the repository. The obligation of evaluate says its result is
// the recursive semantics nsEval for every script and context. The harness concretises the input
// class it quantifies over - every script of depth <= 2 and width <= 2 over the leaves pubkey(k0),
// pubkey(k1), a pubkey with a 27-byte hash, invalid-before 0 / 5, invalid-hereafter 0 / 5, with
// n-of-k for n = 0..3, decoded from CBOR; every witness set over {k0, k1}; validity bounds 0, 4, 5,
// 6 and the maximum - and compares the real evaluator with an independent one written from the
// property statement.
package common_test

import (
	"math"
	"testing"

	"github.com/blinklabs-io/gouroboros/cbor"
	"github.com/blinklabs-io/gouroboros/ledger/common"
)

type c29Script struct {
	kind int // 0 pubkey 1 all 2 any 3 nofk 4 before 5 hereafter
	key  []byte
	n    uint64
	subs []c29Script
}

func (s c29Script) enc() []byte {
	uintEnc := func(v uint64) []byte {
		if v < 24 {
			return []byte{byte(v)}
		}
		return []byte{0x18, byte(v)}
	}
	list := func(subs []c29Script) []byte {
		out := []byte{0x80 | byte(len(subs))}
		for _, x := range subs {
			out = append(out, x.enc()...)
		}
		return out
	}
	switch s.kind {
	case 0:
		return append([]byte{0x82, 0x00, 0x58, byte(len(s.key))}, s.key...)
	case 1, 2:
		return append([]byte{0x82, byte(s.kind)}, list(s.subs)...)
	case 3:
		return append(append([]byte{0x83, 0x03}, uintEnc(s.n)...), list(s.subs)...)
	}
	return append([]byte{0x82, byte(s.kind)}, uintEnc(s.n)...)
}

func (s c29Script) eval(start, end uint64, keys map[common.Blake2b224]bool) bool {
	switch s.kind {
	case 0:
		if len(s.key) != 28 {
			return false
		}
		return keys[common.Blake2b224(s.key)]
	case 1:
		for _, x := range s.subs {
			if !x.eval(start, end, keys) {
				return false
			}
		}
		return true
	case 2:
		for _, x := range s.subs {
			if x.eval(start, end, keys) {
				return true
			}
		}
		return false
	case 3:
		c := uint64(0)
		for _, x := range s.subs {
			if x.eval(start, end, keys) {
				c++
			}
		}
		return c >= s.n
	case 4:
		return start >= s.n
	}
	return end <= s.n
}

func TestVerifReplay(t *testing.T) {
	k0, k1 := make([]byte, 28), make([]byte, 28)
	k0[0], k1[0] = 0xa0, 0xa1
	leaves := []c29Script{{kind: 0, key: k0}, {kind: 0, key: k1}, {kind: 0, key: k0[:27]},
		{kind: 4, n: 0}, {kind: 4, n: 5}, {kind: 5, n: 0}, {kind: 5, n: 5}}
	combine := func(pool []c29Script) []c29Script {
		var out []c29Script
		var groups [][]c29Script
		groups = append(groups, nil)
		for i := range pool {
			groups = append(groups, []c29Script{pool[i]})
			for j := range pool {
				if i != j {
					groups = append(groups, []c29Script{pool[i], pool[j]})
				}
			}
		}
		for _, g := range groups {
			out = append(out, c29Script{kind: 1, subs: g}, c29Script{kind: 2, subs: g})
			for n := uint64(0); n <= 3; n++ {
				out = append(out, c29Script{kind: 3, n: n, subs: g})
			}
		}
		return out
	}
	depth1 := combine(leaves)
	// depth 2: combinators over a sample of depth-1 scripts and leaves
	var pool2 []c29Script
	for i := 0; i < len(depth1); i += 23 {
		pool2 = append(pool2, depth1[i])
	}
	pool2 = append(pool2, leaves[0], leaves[4], leaves[6])
	scripts := append(append(append([]c29Script{}, leaves...), depth1...), combine(pool2)...)
	var keysets []map[common.Blake2b224]bool
	for m := 0; m < 4; m++ {
		ks := map[common.Blake2b224]bool{}
		if m&1 != 0 {
			ks[common.Blake2b224(k0)] = true
		}
		if m&2 != 0 {
			ks[common.Blake2b224(k1)] = true
		}
		keysets = append(keysets, ks)
	}
	bounds := []uint64{0, 4, 5, 6, math.MaxUint64}
	violated, checked := false, 0
	for _, sc := range scripts {
		data := sc.enc()
		var ns common.NativeScript
		if _, err := cbor.Decode(data, &ns); err != nil {
			continue
		}
		for _, ks := range keysets {
			for _, start := range bounds {
				for _, end := range bounds {
					checked++
					got, want := ns.Evaluate(0, start, end, ks), sc.eval(start, end, ks)
					if got != want && !violated {
						t.Errorf("VERIF-REPLAY: violated: script %x with validity start %d, end %d and %d witness keys evaluates to %v, the ledger semantics give %v", data, start, end, len(ks), got, want)
						violated = true
					}
				}
			}
		}
	}
	if checked == 0 {
		t.Fatalf("no script decodes: the harness checks nothing")
	}
	if !violated {
		t.Logf("VERIF-REPLAY: holds for %d script / context pairs", checked)
	}
}
