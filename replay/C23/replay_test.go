// replay-pkg: protocol/blockfetch
//
// Replay harness for C23 (block-fetch returns the blocks that were asked for). Injected into /repo
// with `go test -overlay`; never part of the repository. The failed obligation says that GetBlock
// can return (block, nil) for a block that arrived on the internal channel whose hash differs from
// the requested point's hash. The concrete history: a mock server that answers a single-block
// request with a well-formed block other than the one asked for (the requested hash has one bit
// flipped). The oracle is the property statement: the call must fail, or return the block whose hash
// was requested.
package blockfetch_test

import (
	"bytes"
	"testing"

	ouroboros "github.com/blinklabs-io/gouroboros"
	"github.com/blinklabs-io/gouroboros/cbor"
	"github.com/blinklabs-io/gouroboros/ledger"
	"github.com/blinklabs-io/gouroboros/protocol"
	"github.com/blinklabs-io/gouroboros/protocol/blockfetch"
	pcommon "github.com/blinklabs-io/gouroboros/protocol/common"
	ouroboros_mock "github.com/blinklabs-io/ouroboros-mock"
)

func TestVerifReplay(t *testing.T) {
	served := ledger.BabbageBlock{BlockHeader: &ledger.BabbageBlockHeader{}}
	served.BlockHeader.Body.BlockNumber = 12345
	served.BlockHeader.Body.Slot = 23456
	blockCbor, err := cbor.Encode(served)
	if err != nil {
		t.Fatal(err)
	}
	if _, err := cbor.Decode(blockCbor, &served); err != nil {
		t.Fatal(err)
	}
	servedHash := served.Hash().Bytes()
	histories := map[string][]byte{
		"one bit of the requested hash differs": func() []byte { a := append([]byte{}, servedHash...); a[0] ^= 0x01; return a }(),
		"requested hash is empty":               {},
		"requested hash is a 16-byte prefix":    append([]byte{}, servedHash[:16]...),
		"requested hash has an extra byte":      append(append([]byte{}, servedHash...), 0),
	}
	wrapped, err := cbor.Encode(blockfetch.WrappedBlock{Type: ledger.BlockTypeBabbage, RawBlock: cbor.RawMessage(blockCbor)})
	if err != nil {
		t.Fatal(err)
	}
	for name, asked := range histories {
		conversation := append(
			append([]ouroboros_mock.ConversationEntry{}, conversationHandshakeRequestRange...),
			ouroboros_mock.ConversationEntryOutput{
				ProtocolId: blockfetch.ProtocolId,
				IsResponse: true,
				Messages: []protocol.Message{
					blockfetch.NewMsgStartBatch(),
					blockfetch.NewMsgBlock(wrapped),
					blockfetch.NewMsgBatchDone(),
				},
			},
		)
		runTest(
			t,
			conversation,
			func(t *testing.T, oConn *ouroboros.Connection) {
				defer func() {
					if r := recover(); r != nil {
						t.Logf("VERIF-REPLAY: inconclusive for %q (panic: %v)", name, r)
					}
				}()
				blk, err := oConn.BlockFetch().Client.GetBlock(pcommon.NewPoint(23456, asked))
				if err != nil {
					t.Logf("VERIF-REPLAY: holds for %q (GetBlock failed: %v)", name, err)
					return
				}
				if blk == nil || !bytes.Equal(blk.Hash().Bytes(), asked) {
					t.Errorf("VERIF-REPLAY: violated: %s: GetBlock(hash %x) succeeded with block %v", name, asked, blk)
					return
				}
				t.Logf("VERIF-REPLAY: holds for %q", name)
			},
			ouroboros.WithBlockFetchConfig(blockfetch.Config{SkipBlockValidation: true}),
		)
	}
}
