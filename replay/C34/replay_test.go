// replay-pkg: ledger
//
// Replay harness for C34 (block bodies are bound to their headers at decode time). Injected into
// /repo with `go test -overlay`; never part of the repository. The obligations say a Shelley..Conway
// block constructor succeeds, with validation enabled, only if ValidateBlockBodyHash accepted the
// very bytes being decoded against the decoded header's body hash with the era's item count, and
// that the accepted hash is the hash of the hashes of items 1..n-1. The harness concretises the
// input class they quantify over - the real block of each era with each body segment replaced by an
// empty collection, truncated by its last element's last byte flipped, or exchanged with the empty
// segment of the same kind - and judges the real constructors by the property statement: the real
// block decodes; a mutated block that still decodes with validation skipped must be rejected with
// validation enabled.
package ledger_test

import (
	"encoding/hex"
	"strings"
	"testing"

	"github.com/blinklabs-io/gouroboros/cbor"
	"github.com/blinklabs-io/gouroboros/internal/testdata"
	"github.com/blinklabs-io/gouroboros/ledger"
	"github.com/blinklabs-io/gouroboros/ledger/common"
)

func TestVerifReplay(t *testing.T) {
	eras := []struct {
		name  string
		typ   uint
		hex   string
		items int
	}{
		{"shelley", ledger.BlockTypeShelley, testdata.ShelleyBlockHex, 4},
		{"allegra", ledger.BlockTypeAllegra, testdata.AllegraBlockHex, 4},
		{"mary", ledger.BlockTypeMary, testdata.MaryBlockHex, 4},
		{"alonzo", ledger.BlockTypeAlonzo, testdata.AlonzoBlockHex, 5},
		{"babbage", ledger.BlockTypeBabbage, testdata.BabbageBlockHex, 5},
		{"conway", ledger.BlockTypeConway, testdata.ConwayBlockHex, 5},
	}
	violated := false
	checked := 0
	for _, era := range eras {
		data, err := hex.DecodeString(strings.TrimSpace(era.hex))
		if err != nil {
			t.Fatalf("bad hex for %s: %v", era.name, err)
		}
		if _, err := ledger.NewBlockFromCbor(era.typ, data); err != nil {
			t.Errorf("VERIF-REPLAY: violated: the real %s block is rejected with validation enabled: %v", era.name, err)
			violated = true
			continue
		}
		var raw []cbor.RawMessage
		if _, err := cbor.Decode(data, &raw); err != nil || len(raw) != era.items {
			t.Fatalf("%s: cannot split block (%v, %d items)", era.name, err, len(raw))
		}
		join := func(segs [][]byte) []byte {
			out := []byte{0x80 | byte(len(segs))}
			for _, s := range segs {
				out = append(out, s...)
			}
			return out
		}
		type mutation struct {
			name string
			data []byte
		}
		var muts []mutation
		for i := 1; i < era.items; i++ {
			for _, empty := range [][]byte{{0x80}, {0xa0}} {
				segs := make([][]byte, era.items)
				for j := range raw {
					segs[j] = raw[j]
				}
				if len(raw[i]) == 1 && raw[i][0] == empty[0] {
					continue
				}
				segs[i] = empty
				muts = append(muts, mutation{"item " + string(rune('0'+i)) + " replaced by " + hex.EncodeToString(empty), join(segs)})
				// every later segment emptied as well (a body stripped from item i on)
				for j := i + 1; j < era.items; j++ {
					if j == 3 {
						segs[j] = []byte{0xa0}
					} else {
						segs[j] = []byte{0x80}
					}
				}
				muts = append(muts, mutation{"items from " + string(rune('0'+i)) + " on emptied", join(segs)})
			}
			if len(raw[i]) > 1 {
				for _, bit := range []byte{0x01, 0x80} {
					segs := make([][]byte, era.items)
					for j := range raw {
						segs[j] = raw[j]
					}
					flipped := append([]byte(nil), raw[i]...)
					flipped[len(flipped)-1] ^= bit
					segs[i] = flipped
					muts = append(muts, mutation{"last byte of item " + string(rune('0'+i)) + " flipped", join(segs)})
				}
			}
		}
		for _, m := range muts {
			if string(m.data) == string(data) {
				continue
			}
			if _, err := ledger.NewBlockFromCbor(era.typ, m.data, common.VerifyConfig{SkipBodyHashValidation: true}); err != nil {
				continue // the mutation no longer decodes: outside the property's input class
			}
			checked++
			if _, err := ledger.NewBlockFromCbor(era.typ, m.data); err == nil {
				t.Errorf("VERIF-REPLAY: violated: %s block with %s is accepted under the original header", era.name, m.name)
				violated = true
			}
		}
	}
	if checked == 0 {
		t.Fatalf("no mutated block decodes: the harness checks nothing")
	}
	if !violated {
		t.Logf("VERIF-REPLAY: holds for %d mutated blocks that still decode", checked)
	}
}
