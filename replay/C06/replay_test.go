// replay-pkg: ledger/common
//
// Replay harness for C06 (multi-asset values: a commutative group up to zeros). Injected into /repo
// with `go test -overlay`; never part of the repository. A failed obligation of Add / addAmounts /
// Asset / normalize says that, for some maps and quantities, the operation disagrees with per-asset
// integer arithmetic or writes memory it must not write. The harness concretises that input class -
// every pair of values over two policies and three asset names with quantities from {absent, 0, 1,
// -1, 2^64, -(2^64)} - and judges the real code by the property statement.
package common

import (
	"fmt"
	"math/big"
	"testing"

	"github.com/blinklabs-io/gouroboros/cbor"
)

type c06Val map[string]map[string]*big.Int // reference model: policy -> name -> quantity

func c06Policy(s string) Blake2b224 {
	var p Blake2b224
	copy(p[:], []byte(s))
	return p
}

func c06Build(v c06Val) *MultiAsset[MultiAssetTypeOutput] {
	data := map[Blake2b224]map[cbor.ByteString]MultiAssetTypeOutput{}
	for p, as := range v {
		inner := map[cbor.ByteString]MultiAssetTypeOutput{}
		for a, q := range as {
			inner[cbor.NewByteString([]byte(a))] = new(big.Int).Set(q)
		}
		data[c06Policy(p)] = inner
	}
	m := NewMultiAsset[MultiAssetTypeOutput](data)
	return &m
}

func c06Qty(v c06Val, p, a string) *big.Int {
	if as, ok := v[p]; ok {
		if q, ok := as[a]; ok && q != nil {
			return q
		}
	}
	return new(big.Int)
}

func c06Get(m *MultiAsset[MultiAssetTypeOutput], p, a string) *big.Int {
	q := m.Asset(c06Policy(p), []byte(a))
	if q == nil {
		return new(big.Int)
	}
	return q
}

func TestVerifReplay(t *testing.T) {
	two64 := new(big.Int).Lsh(big.NewInt(1), 64)
	qs := []*big.Int{nil, big.NewInt(0), big.NewInt(1), big.NewInt(-1), two64, new(big.Int).Neg(two64)}
	policies := []string{"P1", "P2"}
	names := []string{"a", "b", ""}
	// a small family of values: every single-entry value, plus a few with several entries
	var vals []c06Val
	vals = append(vals, c06Val{})
	for _, p := range policies {
		for _, a := range names {
			for _, q := range qs {
				if q != nil {
					vals = append(vals, c06Val{p: {a: q}})
				}
			}
		}
	}
	vals = append(vals,
		c06Val{"P1": {"a": big.NewInt(1), "b": big.NewInt(0)}, "P2": {"a": big.NewInt(-1)}},
		c06Val{"P1": {"a": big.NewInt(-1), "b": big.NewInt(5), "": two64}},
		c06Val{"P1": {"a": big.NewInt(0)}, "P2": {"": big.NewInt(0)}},
		c06Val{"P2": {"b": new(big.Int).Neg(two64), "a": big.NewInt(7)}},
	)
	bad := func(format string, args ...any) {
		t.Errorf("VERIF-REPLAY: violated: "+format, args...)
	}
	n := 0
	for _, v1 := range vals {
		// Asset and normalize against the reference
		m := c06Build(v1)
		for _, p := range policies {
			for _, a := range names {
				if c06Get(m, p, a).Cmp(c06Qty(v1, p, a)) != 0 {
					bad("Asset(%s,%q) of %v = %v", p, a, v1, c06Get(m, p, a))
					return
				}
			}
		}
		norm := m.normalize()
		for _, p := range policies {
			for _, a := range names {
				want := c06Qty(v1, p, a)
				got, present := norm[c06Policy(p)][cbor.NewByteString([]byte(a))]
				if present != (want.Sign() != 0) || (present && got.Cmp(want) != 0) {
					bad("normalize of %v: entry (%s,%q) present=%v value=%v, quantity is %v", v1, p, a, present, got, want)
					return
				}
				if c06Get(m, p, a).Cmp(want) != 0 {
					bad("normalize changed its receiver %v at (%s,%q)", v1, p, a)
					return
				}
			}
		}
		for _, v2 := range vals {
			for _, v3 := range []c06Val{vals[3], vals[len(vals)-1]} {
				n++
				m1, m2, m3 := c06Build(v1), c06Build(v2), c06Build(v3)
				m1.Add(m2)
				for _, p := range policies {
					for _, a := range names {
						want := new(big.Int).Add(c06Qty(v1, p, a), c06Qty(v2, p, a))
						if c06Get(m1, p, a).Cmp(want) != 0 {
							bad("Add: %v + %v gives %v at (%s,%q), want %v", v1, v2, c06Get(m1, p, a), p, a, want)
							return
						}
						if c06Get(m2, p, a).Cmp(c06Qty(v2, p, a)) != 0 {
							bad("Add changed its operand %v at (%s,%q): now %v", v2, p, a, c06Get(m2, p, a))
							return
						}
					}
				}
				// a later addition to the sum must not reach back into the earlier operand
				m1.Add(m3)
				for _, p := range policies {
					for _, a := range names {
						if c06Get(m2, p, a).Cmp(c06Qty(v2, p, a)) != 0 {
							bad("adding %v to (%v + %v) changed the earlier operand at (%s,%q): now %v", v3, v1, v2, p, a, c06Get(m2, p, a))
							return
						}
						want := new(big.Int).Add(new(big.Int).Add(c06Qty(v1, p, a), c06Qty(v2, p, a)), c06Qty(v3, p, a))
						if c06Get(m1, p, a).Cmp(want) != 0 {
							bad("Add: (%v + %v) + %v gives %v at (%s,%q), want %v", v1, v2, v3, c06Get(m1, p, a), p, a, want)
							return
						}
					}
				}
			}
		}
	}
	t.Logf("VERIF-REPLAY: %d additions over %d values agree with per-asset integer arithmetic on the real code: %s", n, len(vals), fmt.Sprint("ok"))
}
