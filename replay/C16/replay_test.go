// replay-pkg: protocol/localtxmonitor
//
// Replay harness for C16 (state machines match the network specification; a reply is accepted only
// in response to the request kind it answers). Injected into /repo with `go test -overlay`; never
// part of the repository. The failed obligation says the local-tx-monitor table has a single busy
// state that accepts all three reply kinds. The concrete history: the client asks HasTx and a mock
// server answers with ReplyGetSizes. Oracle = the property statement: the protocol must report a
// protocol error for that reply.
package localtxmonitor_test

import (
	"encoding/json"
	"os"
	"strings"
	"testing"
	"time"

	"github.com/blinklabs-io/gouroboros/protocol/txsubmission"

	ouroboros "github.com/blinklabs-io/gouroboros"
	"github.com/blinklabs-io/gouroboros/protocol"
	"github.com/blinklabs-io/gouroboros/protocol/localtxmonitor"
	ouroboros_mock "github.com/blinklabs-io/ouroboros-mock"
)

// replayMatchPredicates: the failed obligation is about tx-submission's match predicates. The
// specification sends a blocking MsgRequestTxIds to StTxIdsBlocking and a non-blocking one to
// StTxIdsNonBlocking, whatever the counts; every combination of flag and counts is tried against
// the real table.
func replayMatchPredicates(t *testing.T) {
	var idle protocol.StateMapEntry
	for st, e := range txsubmission.StateMap {
		if st.Id == 2 {
			idle = e
		}
	}
	violated := false
	for _, blocking := range []bool{true, false} {
		for _, req := range []uint16{0, 1, 3} {
			for _, ack := range []uint16{0, 2} {
				msg := txsubmission.NewMsgRequestTxIds(blocking, ack, req)
				var next uint
				found := false
				for _, tr := range idle.Transitions {
					if tr.MsgType == msg.Type() && (tr.MatchFunc == nil || tr.MatchFunc(nil, msg)) {
						next, found = tr.NewState.Id, true
						break
					}
				}
				want := uint(4)
				if blocking {
					want = 3
				}
				if !found || next != want {
					t.Errorf("VERIF-REPLAY: violated: MsgRequestTxIds(blocking=%v, ack=%d, req=%d) leads to state %d (found=%v), the specification says %d", blocking, ack, req, next, found, want)
					violated = true
				}
			}
		}
	}
	if !violated {
		t.Log("VERIF-REPLAY: holds for the request shapes tried")
	}
}

func TestVerifReplay(t *testing.T) {
	if data, err := os.ReadFile(os.Getenv("VERIF_REPLAY_FILE")); err == nil {
		var rec struct {
			Obligation string `json:"obligation"`
		}
		if json.Unmarshal(data, &rec) == nil && strings.Contains(rec.Obligation, "txsubmission") {
			replayMatchPredicates(t)
			return
		}
	}
	conversation := append(
		append([]ouroboros_mock.ConversationEntry{}, conversationHandshakeAcquire...),
		ouroboros_mock.ConversationEntryInput{
			ProtocolId:  localtxmonitor.ProtocolId,
			MessageType: localtxmonitor.MessageTypeHasTx,
		},
		ouroboros_mock.ConversationEntryOutput{
			ProtocolId: localtxmonitor.ProtocolId,
			IsResponse: true,
			Messages: []protocol.Message{
				localtxmonitor.NewMsgReplyGetSizes(1000, 10, 1),
			},
		},
	)
	mockConn := ouroboros_mock.NewConnection(ouroboros_mock.ProtocolRoleClient, conversation)
	oConn, err := ouroboros.New(
		ouroboros.WithConnection(mockConn),
		ouroboros.WithNetworkMagic(ouroboros_mock.MockNetworkMagic),
	)
	if err != nil {
		t.Fatal(err)
	}
	defer oConn.Close()
	oConn.LocalTxMonitor().Client.Start()
	go func() {
		// the call itself may fail or hang; the verdict is taken from the connection's error channel
		_, _ = oConn.LocalTxMonitor().Client.HasTx([]byte{0xab, 0xcd})
	}()
	select {
	case err, ok := <-oConn.ErrorChan():
		if ok && err != nil {
			t.Logf("VERIF-REPLAY: holds (protocol error reported: %v)", err)
			return
		}
		t.Log("VERIF-REPLAY: inconclusive (connection closed without an error)")
	case <-time.After(3 * time.Second):
		t.Errorf("VERIF-REPLAY: violated: the reply ReplyGetSizes to a HasTx request was accepted by the state machine (no protocol error within 3s)")
	}
}
