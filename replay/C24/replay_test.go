// replay-pkg: protocol/txsubmission
//
// Replay harness for C24 (tx-submission acknowledgement window). Injected into /repo with
// `go test -overlay`; never part of the repository. The obligations of Server.RequestTxIds say that the
// count it acknowledges is exactly the number of ids received and not yet acknowledged, that both
// counts fit 0..65535, and that after a reply carrying n ids the window is n. The harness concretises
// the input class they quantify over - histories of requests whose replies carry 0, 1 or several ids,
// in every order of a short alphabet - on a real Client and a real Server over two real muxers, and
// judges the real code by the property statement: each request acknowledges exactly the ids of the
// replies received since the previous acknowledgement, and out-of-range counts are refused without a
// message being sent.
package txsubmission_test

import (
	"fmt"
	"net"
	"testing"
	"time"

	"github.com/blinklabs-io/gouroboros/connection"
	"github.com/blinklabs-io/gouroboros/muxer"
	"github.com/blinklabs-io/gouroboros/protocol"
	"github.com/blinklabs-io/gouroboros/protocol/txsubmission"
)

type c24Seen struct {
	blocking bool
	ack, req uint16
}

func c24Run(t *testing.T, replies []int) string {
	cc, sc := net.Pipe()
	cm, sm := muxer.New(cc), muxer.New(sc)
	cErr, sErr := make(chan error, 10), make(chan error, 10)
	seen := make(chan c24Seen, 100)
	next := make(chan int, 100)
	initDone := make(chan struct{}, 1)
	ccfg := txsubmission.NewConfig(txsubmission.WithRequestTxIdsFunc(
		func(_ txsubmission.CallbackContext, blocking bool, ack uint16, req uint16) ([]txsubmission.TxIdAndSize, error) {
			seen <- c24Seen{blocking, ack, req}
			n := <-next
			ids := make([]txsubmission.TxIdAndSize, n)
			for i := range ids {
				ids[i].TxId.EraId = 5
				ids[i].TxId.TxId[0] = byte(i + 1)
				ids[i].Size = 100
			}
			return ids, nil
		}))
	scfg := txsubmission.NewConfig(txsubmission.WithInitFunc(
		func(txsubmission.CallbackContext) error { initDone <- struct{}{}; return nil }))
	connId := connection.ConnectionId{LocalAddr: cc.LocalAddr(), RemoteAddr: cc.RemoteAddr()}
	client := txsubmission.NewClient(protocol.ProtocolOptions{ConnectionId: connId, Muxer: cm, ErrorChan: cErr, Mode: protocol.ProtocolModeNodeToNode, Role: protocol.ProtocolRoleClient}, &ccfg)
	server := txsubmission.NewServer(protocol.ProtocolOptions{ConnectionId: connId, Muxer: sm, ErrorChan: sErr, Mode: protocol.ProtocolModeNodeToNode, Role: protocol.ProtocolRoleServer}, &scfg)
	cm.Start()
	sm.Start()
	defer func() {
		cm.Stop()
		sm.Stop()
		_ = cc.Close()
		_ = sc.Close()
	}()
	client.Start()
	server.Start()
	client.Init()
	select {
	case <-initDone:
	case err := <-cErr:
		return fmt.Sprintf("client error before the first request: %v", err)
	case err := <-sErr:
		return fmt.Sprintf("server error before the first request: %v", err)
	case <-time.After(5 * time.Second):
		return "init was not delivered"
	}
	// out-of-range counts are refused and nothing is sent
	for _, bad := range []int{-1, 65536, 1 << 20} {
		if _, err := server.RequestTxIds(false, bad); err == nil {
			return fmt.Sprintf("request count %d was accepted", bad)
		}
	}
	select {
	case s := <-seen:
		return fmt.Sprintf("a request (%+v) went out for an out-of-range count", s)
	case <-time.After(20 * time.Millisecond):
	}
	unacked := 0
	for i, n := range replies {
		blocking := unacked == 0 && n > 0 && i%2 == 0 // a blocking request needs an empty window and a non-empty reply
		next <- n
		type res struct {
			ids []txsubmission.TxIdAndSize
			err error
		}
		rc := make(chan res, 1)
		go func() {
			ids, err := server.RequestTxIds(blocking, n+1)
			rc <- res{ids, err}
		}()
		var r res
		select {
		case r = <-rc:
		case err := <-cErr:
			return fmt.Sprintf("request %d: client error: %v", i, err)
		case err := <-sErr:
			return fmt.Sprintf("request %d: server error: %v", i, err)
		case <-time.After(5 * time.Second):
			return fmt.Sprintf("request %d did not complete", i)
		}
		if r.err != nil {
			return fmt.Sprintf("request %d failed: %v", i, r.err)
		}
		s := <-seen
		if int(s.ack) != unacked {
			return fmt.Sprintf("request %d acknowledges %d ids, but %d were received and not yet acknowledged (replies so far %v)", i, s.ack, unacked, replies[:i])
		}
		if s.blocking != blocking || int(s.req) != n+1 {
			return fmt.Sprintf("request %d went out as %+v, asked for blocking=%v req=%d", i, s, blocking, n+1)
		}
		if len(r.ids) != n {
			return fmt.Sprintf("request %d returned %d ids, the reply carried %d", i, len(r.ids), n)
		}
		unacked = n // everything received before this request is now acknowledged
	}
	return ""
}

func TestVerifReplay(t *testing.T) {
	alphabet := []int{0, 1, 3}
	var hist [][]int
	var gen func(cur []int, depth int)
	gen = func(cur []int, depth int) {
		if depth == 0 {
			hist = append(hist, append([]int(nil), cur...))
			return
		}
		for _, a := range alphabet {
			gen(append(cur, a), depth-1)
		}
	}
	gen(nil, 4)
	hist = append(hist, []int{2, 0, 0, 0, 5, 0, 1}, []int{1000, 0, 7})
	for _, h := range hist {
		if msg := c24Run(t, h); msg != "" {
			t.Fatalf("VERIF-REPLAY: violated: reply sizes %v: %s", h, msg)
		}
	}
	t.Logf("VERIF-REPLAY: holds for %d histories of replies", len(hist))
}
