// replay-pkg: protocol/common
//
// Replay harness for C04 (chain points reject malformed shapes). Injected into /repo with
// `go test -overlay`; never part of the repository. The failed obligation says Point.UnmarshalCBOR can
// return nil for a wire value that is neither an empty list nor a [slot, hash] pair. The verifier's
// model is over the abstract result of the library decoder, so the harness concretises the input
// classes the obligations name (arity 1, 3, 4; slot or hash of another CBOR kind) and judges each by
// the property statement: decoding must fail.
package common_test

import (
	"encoding/hex"
	"testing"

	"github.com/blinklabs-io/gouroboros/cbor"
	"github.com/blinklabs-io/gouroboros/protocol/common"
)

func TestVerifReplay(t *testing.T) {
	bad := map[string]string{
		"one element":                    "8105",
		"three elements":                 "83054201020a",
		"four elements":                  "8405420102030a",
		"slot is a text string":          "82616141aa",
		"slot is negative":               "822041aa",
		"hash is null":                   "8205f6",
		"hash is an array of integers":   "820583010203",
		"hash is an unsigned integer":    "820507",
		"hash is a text string":          "82056161",
		"hash is a tag-24 byte string":   "8205d81841aa",
		"slot is a bignum":               "82c2410541aa",
		"indefinite list of three items": "9f0541aa07ff",
	}
	violated := false
	for name, h := range bad {
		data, err := hex.DecodeString(h)
		if err != nil {
			t.Fatal(err)
		}
		var p common.Point
		if _, err := cbor.Decode(data, &p); err == nil {
			t.Errorf("VERIF-REPLAY: violated: point with %s (%s) was accepted as %+v", name, h, p)
			violated = true
		}
	}
	if !violated {
		t.Log("VERIF-REPLAY: holds for the malformed shapes tried")
	}
}
