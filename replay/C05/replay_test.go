// replay-pkg: ledger/common
//
// Replay harness for C05 (address encodings are mutually consistent). Injected into /repo with
// `go test -overlay`; never part of the repository. The obligations say that parsing address bytes
// reports the type and network of the header nibbles, that serialising gives the bytes back, and that
// text parsing accepts a bech32 prefix only when it is the one the address itself generates. The
// harness concretises the input class they quantify over - address types 0-7, 14, 15 on both
// networks with pointer triples around the varint boundaries, each re-encoded under every known
// prefix and truncations of it - and judges the real code by the property statement.
package common_test

import (
	"bytes"
	"testing"

	"github.com/btcsuite/btcd/btcutil/bech32"

	"github.com/blinklabs-io/gouroboros/ledger/common"
)

func c05Varint(v uint64) []byte {
	var out []byte
	out = append(out, byte(v&0x7f))
	for v >>= 7; v > 0; v >>= 7 {
		out = append([]byte{byte(v&0x7f) | 0x80}, out...)
	}
	return out
}

func TestVerifReplay(t *testing.T) {
	violated := false
	fail := func(format string, args ...any) {
		t.Errorf("VERIF-REPLAY: violated: "+format, args...)
		violated = true
	}
	h1, h2 := make([]byte, 28), make([]byte, 28)
	for i := range h1 {
		h1[i], h2[i] = byte(i+1), byte(0xf0-i)
	}
	hrps := []string{"addr", "addr_test", "stake", "stake_test", "a", "ad", "addr_", "addr_tes", "stak", "stake_", "wrong"}
	pointers := []uint64{0, 1, 127, 128, 16383, 16384, 1<<32 - 1}
	for _, typ := range []byte{0, 1, 2, 3, 4, 5, 6, 7, 14, 15} {
		for _, net := range []byte{0, 1} {
			var payloads [][]byte
			switch {
			case typ <= 3:
				payloads = [][]byte{append(append([]byte{}, h1...), h2...)}
			case typ <= 5:
				for _, p := range pointers {
					pl := append([]byte{}, h1...)
					pl = append(pl, c05Varint(p)...)
					pl = append(pl, c05Varint(p/3)...)
					pl = append(pl, c05Varint(p%200)...)
					payloads = append(payloads, pl)
				}
			default:
				payloads = [][]byte{append([]byte{}, h1...)}
			}
			for _, pl := range payloads {
				raw := append([]byte{typ<<4 | net}, pl...)
				addr, err := common.NewAddressFromBytes(raw)
				if err != nil {
					fail("well-formed address bytes %x are rejected: %v", raw, err)
					continue
				}
				if addr.Type() != typ || addr.NetworkId() != uint(net) {
					fail("address %x reports type %d network %d, its header says %d / %d", raw, addr.Type(), addr.NetworkId(), typ, net)
				}
				back, err := addr.Bytes()
				if err != nil || !bytes.Equal(back, raw) {
					fail("address %x serialises to %x (%v)", raw, back, err)
				}
				text := addr.String()
				again, err := common.NewAddress(text)
				if err != nil {
					fail("the text form %s of %x does not parse: %v", text, raw, err)
				} else if b2, _ := again.Bytes(); !bytes.Equal(b2, raw) {
					fail("text round trip of %x gives %x", raw, b2)
				}
				own, _, err := bech32.DecodeNoLimit(text)
				if err != nil {
					fail("the text form %s is not bech32: %v", text, err)
					continue
				}
				conv, _ := bech32.ConvertBits(raw, 8, 5, true)
				for _, hrp := range hrps {
					if hrp == own {
						continue
					}
					forged, err := bech32.Encode(hrp, conv)
					if err != nil {
						continue
					}
					if got, err := common.NewAddress(forged); err == nil {
						fail("address %x (own prefix %q) is accepted under the prefix %q and reads back as %s", raw, own, hrp, got.String())
					}
				}
			}
		}
	}
	if !violated {
		t.Log("VERIF-REPLAY: holds for every address type, network, pointer and foreign prefix tried")
	}
}
