// replay-pkg: ledger/common
//
// Replay harness for C30 (the minimum fee and size limits use the transaction's real size).
// Injected into /repo with `go test -overlay`; never part of the repository. The obligations of
// TxSizeForFee say the fee-relevant size is the length of the original encoding minus one byte
// exactly for an Alonzo-or-later envelope that is a definite-length list of four items, in any
// header form; those of CalculateMinFee say the fee is a*size+b in unbounded arithmetic or an
// error. The harness concretises the input class they quantify over - envelopes of 2..5 items under
// every list-header form (minimal, 1-, 2-, 4-, 8-byte length, indefinite) for every transaction type
// 0..8, and fee parameters around the 64-bit boundary - and judges the real code by the property
// statement.
package common_test

import (
	"math/big"
	"testing"

	"github.com/blinklabs-io/gouroboros/ledger/common"
)

type c30Tx struct {
	common.Transaction
	raw []byte
	typ int
}

func (t c30Tx) Cbor() []byte { return t.raw }
func (t c30Tx) Type() int    { return t.typ }

func TestVerifReplay(t *testing.T) {
	violated := false
	headers := func(n int) map[string][]byte {
		return map[string][]byte{
			"minimal header":    {0x80 | byte(n)},
			"one-byte length":   {0x98, byte(n)},
			"two-byte length":   {0x99, 0, byte(n)},
			"four-byte length":  {0x9a, 0, 0, 0, byte(n)},
			"eight-byte length": {0x9b, 0, 0, 0, 0, 0, 0, 0, byte(n)},
			"indefinite length": {0x9f},
		}
	}
	items := [][]byte{{0xa1, 0x02, 0x19, 0x01, 0x00}, {0xa0}, {0xf5}, {0xf6}, {0x80}}
	for n := 2; n <= 5; n++ {
		for form, hdr := range headers(n) {
			raw := append([]byte{}, hdr...)
			for i := 0; i < n; i++ {
				raw = append(raw, items[i]...)
			}
			if hdr[0] == 0x9f {
				raw = append(raw, 0xff)
			}
			for typ := 0; typ <= 8; typ++ {
				got, err := common.TxSizeForFee(c30Tx{raw: raw, typ: typ})
				want := len(raw)
				if typ >= 4 && n == 4 && hdr[0] != 0x9f {
					want--
				}
				if err != nil || got != want {
					t.Errorf("VERIF-REPLAY: violated: TxSizeForFee of a %d-item envelope with %s (%d bytes), transaction type %d = %d, %v; the property gives %d", n, form, len(raw), typ, got, err, want)
					violated = true
				}
			}
		}
	}
	max := new(big.Int).Lsh(big.NewInt(1), 64)
	for _, size := range []int{-1, 0, 1, 2, 16384, 1 << 31} {
		for _, a := range []uint{0, 1, 44, 1 << 32, 1<<63 - 1, 1 << 63, 1<<64 - 1} {
			for _, b := range []uint{0, 1, 155381, 1 << 63, 1<<64 - 2, 1<<64 - 1} {
				fee, err := common.CalculateMinFee(size, a, b)
				if size < 0 {
					if err == nil {
						t.Errorf("VERIF-REPLAY: violated: CalculateMinFee accepts the negative size %d", size)
						violated = true
					}
					continue
				}
				exact := new(big.Int).Mul(new(big.Int).SetUint64(uint64(a)), big.NewInt(int64(size)))
				exact.Add(exact, new(big.Int).SetUint64(uint64(b)))
				if exact.Cmp(max) >= 0 {
					if err == nil {
						t.Errorf("VERIF-REPLAY: violated: CalculateMinFee(%d, %d, %d) = %d, the exact fee %s overflows and must be an error", size, a, b, fee, exact)
						violated = true
					}
				} else if err != nil || new(big.Int).SetUint64(fee).Cmp(exact) != 0 {
					t.Errorf("VERIF-REPLAY: violated: CalculateMinFee(%d, %d, %d) = %d, %v; a*size+b = %s", size, a, b, fee, err, exact)
					violated = true
				}
			}
		}
	}
	if !violated {
		t.Log("VERIF-REPLAY: holds for every envelope form, transaction type and fee parameter tried")
	}
}
