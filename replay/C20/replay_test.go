// replay-pkg: protocol
//
// Replay harness for C20 (supported-version tables are internally consistent). Injected into /repo
// with `go test -overlay`; never part of the repository. The obligations quantify over all flag
// values and all versions; a failed one names a builder or the table. The harness evaluates the
// property statement itself on the real code for every version and every combination of the
// boolean arguments with two magics: generated data, encoded and decoded with the version's own
// decoder, must report the requested magic / diffusion mode / peer sharing / query flag; the version
// lists must hold exactly their side, ascending; enabled eras must form a prefix that never shrinks.
package protocol_test

import (
	"sort"
	"testing"

	"github.com/blinklabs-io/gouroboros/cbor"
	"github.com/blinklabs-io/gouroboros/protocol"
)

func TestVerifReplay(t *testing.T) {
	violated := false
	fail := func(f string, a ...any) {
		violated = true
		t.Errorf("VERIF-REPLAY: violated: "+f, a...)
	}
	roundTrip := func(name string, v uint16, d protocol.VersionData, magic uint32, diff, ps, q bool, hasDiff, hasPs, hasQ bool) {
		enc, err := cbor.Encode(d)
		if err != nil {
			fail("%s v%d: encode: %v", name, v, err)
			return
		}
		dec, err := protocol.GetProtocolVersion(v).NewVersionDataFromCborFunc(enc)
		if err != nil || dec == nil {
			fail("%s v%d: the version's own decoder rejects the generated data: %v", name, v, err)
			return
		}
		if dec.NetworkMagic() != magic {
			fail("%s v%d: magic %d, requested %d", name, v, dec.NetworkMagic(), magic)
		}
		if hasDiff && dec.DiffusionMode() != diff {
			fail("%s v%d (diff=%v ps=%v q=%v): diffusion mode %v", name, v, diff, ps, q, dec.DiffusionMode())
		}
		if hasPs && dec.PeerSharing() != ps {
			fail("%s v%d (diff=%v ps=%v q=%v): peer sharing %v", name, v, diff, ps, q, dec.PeerSharing())
		}
		if hasQ && dec.Query() != q {
			fail("%s v%d (diff=%v ps=%v q=%v): query %v", name, v, diff, ps, q, dec.Query())
		}
	}
	bools := []bool{false, true}
	for _, magic := range []uint32{0, 764824073} {
		for _, diff := range bools {
			for _, ps := range bools {
				for _, q := range bools {
					for v, d := range protocol.GetProtocolVersionMap(protocol.ProtocolModeNodeToNode, magic, diff, ps, q) {
						if v >= protocol.ProtocolVersionNtCOffset {
							fail("node-to-node map contains version %d", v)
						}
						roundTrip("ntn", v, d, magic, diff, ps, q, true, v >= 11, v >= 11)
					}
					for v, d := range protocol.GetProtocolVersionMap(protocol.ProtocolModeNodeToClient, magic, diff, ps, q) {
						if v < protocol.ProtocolVersionNtCOffset {
							fail("node-to-client map contains version %d", v)
						}
						roundTrip("ntc", v, d, magic, diff, ps, q, false, false, v >= 15+protocol.ProtocolVersionNtCOffset)
					}
					for v, d := range protocol.GetProtocolVersionMapDMQNtN(magic, diff, ps, q) {
						roundTrip("dmq-ntn", v, d, magic, diff, ps, q, true, true, true)
					}
					for v, d := range protocol.GetProtocolVersionMapDMQNtC(magic, q) {
						roundTrip("dmq-ntc", v, d, magic, diff, ps, q, false, false, true)
					}
				}
			}
		}
	}
	check := func(name string, l []uint16, ntc bool) {
		if !sort.SliceIsSorted(l, func(i, j int) bool { return l[i] < l[j] }) {
			fail("%s not ascending: %v", name, l)
		}
		for _, v := range l {
			if (v >= protocol.ProtocolVersionNtCOffset) != ntc {
				fail("%s contains a version of the other side: %d", name, v)
			}
		}
		// era prefix, never shrinking
		prev := -1
		for _, v := range l {
			pv := protocol.GetProtocolVersion(v)
			flags := []bool{pv.EnableShelleyEra, pv.EnableAllegraEra, pv.EnableMaryEra, pv.EnableAlonzoEra, pv.EnableBabbageEra, pv.EnableConwayEra, pv.EnableDijkstraEra}
			n := 0
			for n < len(flags) && flags[n] {
				n++
			}
			for k := n; k < len(flags); k++ {
				if flags[k] {
					fail("%s version %d: enabled eras are not a prefix: %v", name, v, flags)
				}
			}
			if n < prev {
				fail("%s version %d enables fewer eras (%d) than a lower version (%d)", name, v, n, prev)
			}
			prev = n
		}
	}
	check("GetProtocolVersionsNtN", protocol.GetProtocolVersionsNtN(), false)
	check("GetProtocolVersionsNtC", protocol.GetProtocolVersionsNtC(), true)
	if !violated {
		t.Log("VERIF-REPLAY: holds for every version and flag combination tried")
	}
}
