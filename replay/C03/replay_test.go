// replay-pkg: ledger/common
//
// Replay harness for C03 (tagged-sum decoding follows the tag, whatever the length encoding).
// Injected into /repo with `go test -overlay`; never part of the repository. The obligations of
// DecodeIdFromList say that an id read straight from the bytes needs the one-byte list header and
// that with any other header form the id comes from a decode of the very same bytes. The harness
// concretises the input class they quantify over - lists of 1..3 items whose first item is every id
// 0..40 (one- and two-byte integer forms), under every list-header form (minimal, 1-, 2-, 4-, 8-byte
// length, indefinite) - and judges the real code by the property statement: the id returned is the
// list's first element, and a native script / nonce decoded from a re-encoded list is the variant its
// first element names.
package common_test

import (
	"testing"

	"github.com/blinklabs-io/gouroboros/cbor"
	"github.com/blinklabs-io/gouroboros/ledger/common"
)

func c03Header(form int, n int) ([]byte, bool) {
	switch form {
	case 0:
		return []byte{0x80 | byte(n)}, false
	case 1:
		return []byte{0x98, byte(n)}, false
	case 2:
		return []byte{0x99, 0, byte(n)}, false
	case 3:
		return []byte{0x9a, 0, 0, 0, byte(n)}, false
	case 4:
		return []byte{0x9b, 0, 0, 0, 0, 0, 0, 0, byte(n)}, false
	}
	return []byte{0x9f}, true
}

var c03Forms = []string{"minimal header", "one-byte length", "two-byte length", "four-byte length", "eight-byte length", "indefinite length"}

func c03List(form int, items ...[]byte) []byte {
	hdr, indef := c03Header(form, len(items))
	out := append([]byte{}, hdr...)
	for _, it := range items {
		out = append(out, it...)
	}
	if indef {
		out = append(out, 0xff)
	}
	return out
}

func TestVerifReplay(t *testing.T) {
	violated := false
	fillers := [][]byte{{0x80}, {0x41, 0x07}}
	for form := range c03Forms {
		for id := 0; id <= 40; id++ {
			idEnc := [][]byte{{byte(id)}}
			if id < 24 {
				idEnc = append(idEnc, []byte{0x18, byte(id)}) // non-minimal integer
			} else {
				idEnc = [][]byte{{0x18, byte(id)}}
			}
			for _, ie := range idEnc {
				for n := 1; n <= 3; n++ {
					items := [][]byte{ie}
					items = append(items, fillers[:n-1]...)
					data := c03List(form, items...)
					got, err := cbor.DecodeIdFromList(data)
					if err != nil {
						continue
					}
					if got != id {
						t.Errorf("VERIF-REPLAY: violated: DecodeIdFromList(%x) [%s, %d items] = %d, the first element is %d", data, c03Forms[form], n, got, id)
						violated = true
					}
				}
			}
		}
		// variants: native scripts [1, []] (all), [2, []] (any), [3, 1, []] (n-of-k), [4, 5] / [5, 5] (time locks)
		scripts := []struct {
			items [][]byte
			want  string
		}{
			{[][]byte{{0x01}, {0x80}}, "*common.NativeScriptAll"},
			{[][]byte{{0x02}, {0x80}}, "*common.NativeScriptAny"},
			{[][]byte{{0x03}, {0x01}, {0x80}}, "*common.NativeScriptNofK"},
			{[][]byte{{0x04}, {0x05}}, "*common.NativeScriptInvalidBefore"},
			{[][]byte{{0x05}, {0x05}}, "*common.NativeScriptInvalidHereafter"},
		}
		for _, sc := range scripts {
			data := c03List(form, sc.items...)
			var ns common.NativeScript
			if _, err := cbor.Decode(data, &ns); err != nil {
				continue
			}
			if got := typeName(ns.Item()); got != sc.want {
				t.Errorf("VERIF-REPLAY: violated: native script %x [%s] decodes as %s, its first element names %s", data, c03Forms[form], got, sc.want)
				violated = true
			}
		}
		// nonce [1, h'..32..'] must not become the neutral nonce [0]
		hash := append([]byte{0x58, 0x20}, make([]byte, 32)...)
		hash[5] = 0xab
		data := c03List(form, []byte{0x01}, hash)
		var nonce common.Nonce
		if _, err := cbor.Decode(data, &nonce); err == nil {
			if nonce.Type != common.NonceTypeNonce || nonce.Value[3] != 0xab {
				t.Errorf("VERIF-REPLAY: violated: nonce %x [%s] decodes as type %d value %x", data, c03Forms[form], nonce.Type, nonce.Value)
				violated = true
			}
		}
	}
	if !violated {
		t.Log("VERIF-REPLAY: holds for every header form, id 0..40 and the sampled variants")
	}
}

func typeName(v any) string {
	switch v.(type) {
	case *common.NativeScriptPubkey:
		return "*common.NativeScriptPubkey"
	case *common.NativeScriptAll:
		return "*common.NativeScriptAll"
	case *common.NativeScriptAny:
		return "*common.NativeScriptAny"
	case *common.NativeScriptNofK:
		return "*common.NativeScriptNofK"
	case *common.NativeScriptInvalidBefore:
		return "*common.NativeScriptInvalidBefore"
	case *common.NativeScriptInvalidHereafter:
		return "*common.NativeScriptInvalidHereafter"
	}
	return "unknown"
}
