package main

// Replay of solver counterexamples against the real code with `go test -overlay`.

import (
	"bytes"
	"context"
	"encoding/json"
	"fmt"
	"os"
	"os/exec"
	"path/filepath"
	"regexp"
	"strings"
	"time"
)

var replayPkgRe = regexp.MustCompile(`(?m)^// replay-pkg: (\S+)`)

// tryReplay returns (violated-on-real-code, output, command).
func tryReplay(o *Options, id string, rec map[string]any) (bool, string, string) {
	// one harness per property (replay_test.go), or several (replay_*_test.go), each for the
	// package named on its '// replay-pkg:' line: the one for the failed function's package is used
	tmpl := filepath.Join(verifDir, "replay", id, "replay_test.go")
	fnPkg := ""
	if f, ok := rec["function"].(string); ok {
		if i := strings.LastIndex(f, "/"); i >= 0 {
			if j := strings.Index(f[i:], "."); j >= 0 {
				fnPkg = f[:i+j]
			}
		} else if j := strings.Index(f, "."); j >= 0 {
			fnPkg = f[:j]
		}
	}
	if cands, _ := filepath.Glob(filepath.Join(verifDir, "replay", id, "replay_*_test.go")); len(cands) > 0 {
		for _, c := range cands {
			if b, err := os.ReadFile(c); err == nil {
				if m := replayPkgRe.FindSubmatch(b); m != nil && string(m[1]) == fnPkg {
					tmpl = c
				}
			}
		}
	}
	src, err := os.ReadFile(tmpl)
	if err != nil {
		return false, "no replay harness for this property (or none for package " + fnPkg + ")", ""
	}
	m := replayPkgRe.FindSubmatch(src)
	if m == nil {
		return false, "replay harness lacks a '// replay-pkg:' line", ""
	}
	pkg := string(m[1])
	work := filepath.Join(o.Work, "replay")
	os.MkdirAll(work, 0o755)
	recPath := filepath.Join(work, "record.json")
	data, _ := json.Marshal(rec)
	os.WriteFile(recPath, data, 0o644)
	replace := map[string]string{
		filepath.Join(o.Repo, pkg, "zz_verif_replay_test.go"): tmpl,
	}
	if o.Overlay != "" {
		var mm map[string]string
		if err := loadJSON(o.Overlay, &mm); err == nil {
			for k, v := range mm {
				replace[k] = v
			}
		}
	}
	ov, _ := json.Marshal(map[string]any{"Replace": replace})
	ovPath := filepath.Join(work, "overlay.json")
	os.WriteFile(ovPath, ov, 0o644)
	args := []string{"test", "-overlay", ovPath, "-vet=off", "-count=1", "-timeout", "90s", "-run", "^TestVerifReplay$", "./" + pkg}
	ctx, cancel := context.WithTimeout(context.Background(), 240*time.Second)
	defer cancel()
	cmd := exec.CommandContext(ctx, filepath.Join(goBinDir, "go"), args...)
	cmd.Dir = o.Repo
	cache := filepath.Join(verifDir, ".cache", "go-build")
	os.MkdirAll(cache, 0o755)
	cmd.Env = append(os.Environ(), "VERIF_REPLAY_FILE="+recPath, "GOCACHE="+cache, "GOFLAGS=-mod=mod", "GOPROXY=off", "GOSUMDB=off", "GOTOOLCHAIN=local")
	var out bytes.Buffer
	cmd.Stdout = &out
	cmd.Stderr = &out
	runErr := cmd.Run()
	s := out.String()
	if len(s) > 6000 {
		s = s[:6000]
	}
	cmdline := fmt.Sprintf("cd %s && VERIF_REPLAY_FILE=<this file> go test %s", o.Repo, strings.Join(args[1:], " "))
	violated := runErr != nil && strings.Contains(s, "VERIF-REPLAY: violated")
	return violated, s, cmdline
}
