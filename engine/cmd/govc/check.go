package main

// govc check: decide one property (or all) and write evidence.

import (
	"encoding/json"
	"fmt"
	"os"
	"path/filepath"
	"sort"
	"strings"
	"time"
)

type PropMeta struct {
	Level       string   `json:"level"` // P | K
	Text        string   `json:"text"`
	NotCovered  []string `json:"not_covered"`
	Assumptions []string `json:"assumptions"`
	Technique   string   `json:"technique"`
	DesignRef   string   `json:"design_ref"`
	NA          string   `json:"not_applicable,omitempty"`
	Bounded     []string `json:"bounded,omitempty"`
}

type KnownFinding struct {
	Property   string `json:"property"`
	Obligation string `json:"obligation"`
	What       string `json:"what"`
	Status     string `json:"status"` // open | fixed
	Commit     string `json:"commit,omitempty"`
	Replay     string `json:"replay,omitempty"`
}

type KnownFile struct {
	Findings []KnownFinding `json:"findings"`
}

func loadJSON(path string, v any) error {
	data, err := os.ReadFile(path)
	if err != nil {
		return err
	}
	return json.Unmarshal(data, v)
}

func loadPropMeta() map[string]*PropMeta {
	m := map[string]*PropMeta{}
	loadJSON(filepath.Join(verifDir, "contracts", "properties.json"), &m)
	return m
}

func loadKnown() *KnownFile {
	k := &KnownFile{}
	loadJSON(filepath.Join(verifDir, "KNOWN_FINDINGS.json"), k)
	return k
}

func loadBaseline() map[string][]string {
	b := map[string][]string{}
	loadJSON(filepath.Join(verifDir, "contracts", "BASELINE.json"), &b)
	return b
}

type propRun struct {
	ID         string
	Funcs      []string
	Results    []*OblResult
	Errors     []string
	Notes      []string
	Trusted    []string
	Wall       float64
	Violations []string
	Known      []string
	execs      map[string]*Exec
}

func contractsFor(cs *ContractSet, id string) []string {
	var out []string
	for _, k := range cs.Order {
		c := cs.Funcs[k]
		if c.Trusted || c.NoBody {
			continue
		}
		for _, p := range c.Props {
			if p == id {
				out = append(out, k)
				break
			}
		}
	}
	return out
}

func allPropIDs(cs *ContractSet) []string {
	set := map[string]bool{}
	for _, c := range cs.Funcs {
		if c.Trusted || c.NoBody {
			continue
		}
		for _, p := range c.Props {
			set[p] = true
		}
	}
	for _, l := range cs.Lemmas {
		for _, p := range l.Props {
			set[p] = true
		}
	}
	var out []string
	for p := range set {
		out = append(out, p)
	}
	sort.Strings(out)
	return out
}

func isSlowTier(c *FuncContract) bool { return c.Attrs["tier"] == "thorough" }

func cmdCheck(o *Options, pos []string) int {
	if len(pos) == 0 {
		usage()
	}
	t0 := time.Now()
	p, cs, err := loadAll(o)
	if err != nil {
		fmt.Fprintln(os.Stderr, "govc: load failed:", err)
		// a tree that does not load cannot be verified: report for every requested property
		for _, id := range pos {
			if id == "all" {
				continue
			}
			rp := writeFailureReplay(id, "load", err.Error())
			fmt.Printf("VIOLATION property=%s replay=%s no-failing-input-found\n", id, rp)
		}
		return 1
	}
	loadSecs := time.Since(t0).Seconds()
	ids := pos
	if len(pos) == 1 && pos[0] == "all" {
		ids = allPropIDs(cs)
	}
	meta := loadPropMeta()
	known := loadKnown()
	baseline := loadBaseline()
	// (the second figure is the budget of the full solver race for an obligation the first, short
	// attempt did not decide: generous, so that a loaded machine does not turn into an alarm)
	quick, full := 3, 45
	if o.Tier == "thorough" {
		quick, full = 5, 120
	}
	solver := NewSolver(o.Work, o.Seed, quick, full)
	cache := map[string]*fnRun{}
	rc := 0
	for _, id := range ids {
		run := checkProperty(p, cs, o, solver, id, cache)
		run.Wall += loadSecs
		v := reportProperty(o, run, meta[id], known, baseline[id], cs, solver, p)
		if v > 0 {
			rc = 1
		}
	}
	if rc == 0 {
		os.RemoveAll(o.Work)
	}
	return rc
}

type fnRun struct {
	res   []*OblResult
	x     *Exec
	err   error
	secs  float64
}

func checkProperty(p *Program, cs *ContractSet, o *Options, solver *Solver, id string, cache map[string]*fnRun) *propRun {
	t0 := time.Now()
	run := &propRun{ID: id, execs: map[string]*Exec{}}
	for _, k := range contractsFor(cs, id) {
		c := cs.Funcs[k]
		if o.Tier != "thorough" && isSlowTier(c) {
			continue
		}
		fr, ok := cache[k]
		if !ok {
			t1 := time.Now()
			res, x, err := verifyOne(p, cs, o, solver, k, o.Tier)
			fr = &fnRun{res, x, err, time.Since(t1).Seconds()}
			cache[k] = fr
		}
		run.Funcs = append(run.Funcs, k)
		if fr.err != nil {
			run.Errors = append(run.Errors, fr.err.Error())
			run.Results = append(run.Results, &OblResult{Name: k + "#engine:verifiable", Kind: "engine", Func: k, Status: "undecided", Detail: fr.err.Error(), Instances: 1})
			continue
		}
		run.Results = append(run.Results, fr.res...)
		run.execs[k] = fr.x
		for _, n := range fr.x.notes {
			run.Notes = append(run.Notes, k[strings.LastIndex(k, "/")+1:]+": "+n)
		}
	}
	// lemmas
	for _, l := range cs.Lemmas {
		for _, pid := range l.Props {
			if pid == id {
				r := checkLemma(p, cs, o, solver, l)
				run.Results = append(run.Results, r)
			}
		}
	}
	run.Wall = time.Since(t0).Seconds()
	return run
}

func checkLemma(p *Program, cs *ContractSet, o *Options, solver *Solver, l *Lemma) *OblResult {
	x := NewExec(p, cs, Config{})
	x.rootKey = "lemma"
	name := l.Pkg + "#lemma:" + l.Name
	res := &OblResult{Name: name, Kind: "lemma", Func: l.Pkg, Instances: 1}
	func() {
		defer func() {
			if r := recover(); r != nil {
				res.Status = "undecided"
				res.Detail = fmt.Sprint(r)
			}
		}()
		st := NewState()
		env := x.newSpecEnv(nil, st, st)
		if sp := p.Package(l.Pkg); sp != nil {
			env.pkg = sp
		}
		g := x.specBool(env, l.E)
		ob := &Obl{Name: name, Kind: "lemma", Goal: g, PC: st.PC()}
		x.finalize([]*Obl{ob})
		rs := solver.DischargeAll(x, []*Obl{ob}, 1)
		*res = *rs[0]
	}()
	return res
}

func matchKnown(known *KnownFile, id, obl string) *KnownFinding {
	for i := range known.Findings {
		f := &known.Findings[i]
		if f.Property == id && f.Obligation == obl && f.Status == "open" {
			return f
		}
	}
	return nil
}

func shortObl(name string) string {
	if i := strings.Index(name, "github.com/blinklabs-io/gouroboros/"); i == 0 {
		return name[len("github.com/blinklabs-io/gouroboros/"):]
	}
	return name
}

func writeFailureReplay(id, what, detail string) string {
	dir := filepath.Join(verifDir, "replays", id)
	os.MkdirAll(dir, 0o755)
	path := filepath.Join(dir, sanitize(what)+".json")
	data, _ := json.MarshalIndent(map[string]any{"property": id, "obligation": what, "verifier_output": detail, "replayed": false}, "", " ")
	os.WriteFile(path, data, 0o644)
	return path
}

func sanitize(s string) string {
	r := strings.NewReplacer("/", "_", "#", "-", ":", "-", "*", "", "(", "", ")", "", " ", "_", "$", "_", "+", "p")
	s = r.Replace(shortObl(s))
	if len(s) > 150 {
		s = s[len(s)-150:]
	}
	return s
}

// reportProperty prints KNOWN-FINDING / VIOLATION lines, writes evidence, returns number of violations.
func reportProperty(o *Options, run *propRun, meta *PropMeta, known *KnownFile, baseline []string, cs *ContractSet, solver *Solver, p *Program) int {
	id := run.ID
	violations := 0
	var knownHit []string
	seen := map[string]*OblResult{}
	for _, r := range run.Results {
		seen[r.Name] = r
	}
	discharged := 0
	var samples []any
	byBackend := map[string]int{}
	solverSecs := 0.0
	for _, r := range run.Results {
		solverSecs += r.Secs
		if r.Status == "discharged" {
			discharged++
			for _, b := range strings.Split(r.Backend, ",") {
				byBackend[b]++
			}
			continue
		}
		if kf := matchKnown(known, id, shortObl(r.Name)); kf != nil {
			fmt.Printf("KNOWN-FINDING: property=%s %s: %s\n", id, shortObl(r.Name), kf.What)
			knownHit = append(knownHit, shortObl(r.Name))
			continue
		}
		// a new failure
		violations++
		rp, replayed := handleFailure(o, run, r, p)
		suffix := ""
		if !replayed {
			suffix = " no-failing-input-found"
		}
		fmt.Printf("VIOLATION property=%s replay=%s%s\n", id, rp, suffix)
		fmt.Printf("  obligation %s: %s %s\n", shortObl(r.Name), r.Status, r.Detail)
	}
	// baseline: named (non-safe) obligations that discharged on the pinned tree must still exist
	for _, b := range baseline {
		if strings.Contains(b, "#safe:") || strings.Contains(b, "#frame:") || strings.Contains(b, "#reach:") {
			// generated per memory region / per site: their names follow the engine's memory model and the
			// code's layout, so their absence is not evidence of anything (they are checked when present)
			continue
		}
		full := b
		if !strings.HasPrefix(b, "github.com/") {
			full = "github.com/blinklabs-io/gouroboros/" + b
		}
		if o.Tier != "thorough" {
			// obligations of functions that are only verified in the thorough tier
			if i := strings.Index(full, "#"); i > 0 {
				if c := cs.Funcs[full[:i]]; c != nil && isSlowTier(c) {
					continue
				}
			}
		}
		if _, ok := seen[full]; !ok {
			if matchKnown(known, id, b) != nil {
				continue
			}
			violations++
			rp := writeFailureReplay(id, b, "obligation present in the baseline of the pinned tree is no longer generated (contract-unmatched: the function, loop or call site it was attached to is gone or the function could not be brought under the verifier)")
			fmt.Printf("VIOLATION property=%s replay=%s no-failing-input-found\n", id, rp)
			fmt.Printf("  obligation %s: missing\n", b)
		}
	}
	if len(run.Results) == 0 {
		violations++
		rp := writeFailureReplay(id, "no-obligations", "the check generated zero obligations (vacuity guard)")
		fmt.Printf("VIOLATION property=%s replay=%s no-failing-input-found\n", id, rp)
	}
	// samples
	for i, r := range run.Results {
		if i%maxInt(1, len(run.Results)/12) == 0 || r.Status != "discharged" {
			samples = append(samples, map[string]any{"obligation": shortObl(r.Name), "status": r.Status, "backend": r.Backend, "secs": round3(r.Secs), "smt_bytes": r.SMTBytes, "instances": r.Instances})
		}
	}
	trusted := trustedBase(run, cs)
	// bounded stand-ins for functions outside the verifier's reach (zz_bounded.go): labelled bounded,
	// never counted among the discharged obligations
	boundedRes, boundedViol := runBoundedChecks(o, id)
	violations += boundedViol
	ev := map[string]any{
		"property_id": id,
		"tier":        o.Tier,
		"seed":        o.Seed,
		"level":       "proof",
		"wall_s":      round3(run.Wall),
		"violations":  violations,
		"coverage": map[string]any{
			"obligations":              len(run.Results),
			"discharged":               discharged,
			"checker_cmd":              fmt.Sprintf("/verif/bin/govc check %s --tier %s", id, o.Tier),
			"trusted_base":             trusted,
			"functions_under_contract": shortList(run.Funcs),
			"by_backend":               byBackend,
			"solver_seconds":           round3(solverSecs),
			"samples":                  samples,
			"known_findings":           knownHit,
			"uncontracted_calls_and_model_notes": dedup(run.Notes),
			"engine_errors":            run.Errors,
			"integer_model":            "fixed-width integers are bit-vectors with Go wrap-around on amd64 (int/uint 64 bit); *big.Int values are mathematical integers",
		},
	}
	if meta != nil {
		ev["assumptions"] = append(append([]string{}, meta.Assumptions...), "x/tools go/ssa lowering of the repository sources; SMT solvers z3 4.8.12 / z3 5.1.0 / cvc5 1.0")
		cov := ev["coverage"].(map[string]any)
		cov["not_covered"] = meta.NotCovered
		cov["claim_level"] = meta.Level
		if len(meta.Bounded) > 0 {
			cov["bounded"] = meta.Bounded
		}
	}
	if len(boundedRes) > 0 {
		ev["coverage"].(map[string]any)["bounded_checks"] = boundedRes
	}
	os.MkdirAll(filepath.Join(verifDir, "evidence"), 0o755)
	data, _ := json.MarshalIndent(ev, "", " ")
	os.WriteFile(filepath.Join(verifDir, "evidence", id+".json"), data, 0o644)
	fmt.Printf("property %s: %d obligations, %d discharged, %d known findings, %d violations (%.1fs)\n", id, len(run.Results), discharged, len(knownHit), violations, run.Wall)
	return violations
}

func maxInt(a, b int) int {
	if a > b {
		return a
	}
	return b
}

func round3(f float64) float64 { return float64(int(f*1000+0.5)) / 1000 }

func shortList(l []string) []string {
	var out []string
	for _, s := range l {
		out = append(out, shortObl(s))
	}
	return out
}

func dedup(l []string) []string {
	seen := map[string]bool{}
	var out []string
	for _, s := range l {
		if !seen[s] {
			seen[s] = true
			out = append(out, s)
		}
	}
	sort.Strings(out)
	return out
}

func trustedBase(run *propRun, cs *ContractSet) []string {
	set := map[string]bool{
		"golang.org/x/tools/go/ssa builder (AST -> SSA lowering)": true,
		"govc symbolic semantics of SSA (DESIGN.md section 5)":    true,
		"SMT solvers: z3 4.8.12, z3 5.1.0, cvc5 1.0":               true,
	}
	for _, x := range run.execs {
		for k := range x.D.funs {
			switch {
			case strings.HasPrefix(k, "|im:"):
				set["pure interface method (deterministic getter, assumed): "+strings.Trim(k[4:], "|")] = true
			case strings.HasPrefix(k, "|lib:"):
				set["library function as uninterpreted function: "+strings.Trim(k[5:], "|")] = true
			case strings.HasPrefix(k, "|spec:"):
				set["uninterpreted spec function: "+strings.Trim(k[6:], "|")] = true
			case k == "seqof" || k == "seqcat" || k == "seqlen":
				set["abstract byte sequences (seqof/seqcat/seqlen) with instance axioms"] = true
			case k == "seqcmp":
				set["bytes.Compare as uninterpreted total comparison with antisymmetry instances"] = true
			}
		}
		for _, n := range x.notes {
			if strings.HasPrefix(n, "trusted-contract ") || strings.HasPrefix(n, "intrinsic ") || strings.HasPrefix(n, "assumed-pure ") || strings.HasPrefix(n, "model: ") {
				set[n] = true
			}
		}
	}
	var out []string
	for k := range set {
		out = append(out, k)
	}
	sort.Strings(out)
	return out
}

// handleFailure writes the replay file for a failed obligation and tries to replay its model on the real code.
func handleFailure(o *Options, run *propRun, r *OblResult, p *Program) (string, bool) {
	dir := filepath.Join(verifDir, "replays", run.ID)
	os.MkdirAll(dir, 0o755)
	path := filepath.Join(dir, sanitize(r.Name)+".json")
	inputs := map[string]string{}
	if x := run.execs[r.Func]; x != nil && r.Model != nil {
		for _, in := range x.inputs {
			if v, ok := lookupModel(r.Model, in.Term); ok {
				inputs[in.Name] = v
			}
		}
		for k, v := range r.Model {
			if strings.Contains(k, "im:") {
				inputs[k] = v
			}
		}
	}
	rec := map[string]any{
		"property":        run.ID,
		"obligation":      shortObl(r.Name),
		"function":        shortObl(r.Func),
		"status":          r.Status,
		"verifier_output": r.Detail,
		"where":           r.Where,
		"model":           r.Model,
		"inputs":          inputs,
		"replayed":        false,
	}
	if r.File != "" {
		if q, err := os.ReadFile(r.File); err == nil && len(q) < 400000 {
			rec["smt_query"] = string(q)
		}
	}
	replayed := false
	// an obligation the solvers could not decide (or a function the engine could not bring under the
	// contract any more) is still replayed: several harnesses concretise the input classes the
	// obligation names without needing a model
	if !o.NoReplay && (r.Status == "failed" || r.Status == "undecided") {
		ok, out, cmd := tryReplay(o, run.ID, rec)
		rec["replay_cmd"] = cmd
		rec["replay_output"] = out
		rec["replayed"] = ok
		replayed = ok
	}
	data, _ := json.MarshalIndent(rec, "", " ")
	os.WriteFile(path, data, 0o644)
	return path, replayed
}

func lookupModel(m map[string]string, term string) (string, bool) {
	if v, ok := m[term]; ok {
		return v, true
	}
	t := strings.Trim(term, "|")
	for k, v := range m {
		if strings.Trim(k, "|") == t {
			return v, true
		}
	}
	return "", false
}

func cmdRebaseline(o *Options, pos []string) int {
	p, cs, err := loadAll(o)
	if err != nil {
		fmt.Fprintln(os.Stderr, err)
		return 2
	}
	o.Tier = "thorough"
	solver := NewSolver(o.Work, o.Seed, 5, 120)
	base := loadBaseline()
	ids := pos
	if len(ids) == 0 || ids[0] == "all" {
		ids = allPropIDs(cs)
	}
	cache := map[string]*fnRun{}
	for _, id := range ids {
		run := checkProperty(p, cs, o, solver, id, cache)
		var names []string
		for _, r := range run.Results {
			if r.Status == "discharged" && r.Kind != "safe" {
				names = append(names, shortObl(r.Name))
			} else if r.Status != "discharged" {
				fmt.Printf("not in baseline (%s): %s %s\n", r.Status, shortObl(r.Name), r.Detail)
			}
		}
		sort.Strings(names)
		base[id] = names
		fmt.Printf("%s: %d obligations in baseline\n", id, len(names))
	}
	data, _ := json.MarshalIndent(base, "", " ")
	os.MkdirAll(filepath.Join(verifDir, "contracts"), 0o755)
	os.WriteFile(filepath.Join(verifDir, "contracts", "BASELINE.json"), data, 0o644)
	os.RemoveAll(o.Work)
	return 0
}
