package main

// Symbolic execution of go/ssa functions, path by path, against contracts.

import (
	"fmt"
	"go/constant"
	"go/token"
	"go/types"
	"math/big"
	"sort"
	"strings"

	"golang.org/x/tools/go/ssa"
)

type Obl struct {
	Name      string // <fnkey>#<kind>:<label>
	Func      string
	Kind      string // ensures requires inv safe reach frame callback unwind decreases lemma
	Props     []string
	PathID    int
	PC        []*Term
	Goal      *Term
	ExpectSat bool   // vacuity cover: must be SAT
	Decls     string // filled at emit time
	D         *Decls
	Axioms    []*Term
	Trace     []string
	Inputs    []ModelVar
	Where     string
}

type ModelVar struct {
	Name string
	Term string
	Sort string
}

type Config struct {
	MaxInline  int
	MaxPaths   int
	SafeChecks bool
}

type Exec struct {
	P   *Program
	CS  *ContractSet
	D   *Decls
	cfg Config

	refRoot    map[string]string // reference term -> its allocation root (see setRoot)
	keySt      *State            // state that receives the projection instances of tuple map keys
	localLazy   bool                       // local mode (zz_local.go): undefined values are arbitrary
	localReach  map[*ssa.BasicBlock]bool   // local mode: blocks from which the site is reachable
	localTarget *ssa.CallCommon            // local mode: the call site under verification
	inSelectEvent bool           // an event of a select case is being checked on a clone (tokens are applied by selectOp)
	rootNum    map[string]int    // allocation root -> its allocation number
	refUB      map[string]int    // opaque reference term -> n with term <= refK*(alloc0+n)
	fresh      int
	typeTags   map[string]int
	tagTypes   map[int]types.Type
	strConsts  map[string]*Term
	strOrder   []string
	funcIds    map[string]int
	funcById   map[int]*ssa.Function
	fieldIds   map[string]int64
	allocBase  *Term
	allocCount int
	heap0      map[string]*Term

	needSeqAxioms bool
	axioms        []*Term

	root      *ssa.Function
	rootC     *FuncContract
	rootKey   string
	obls      []*Obl
	paths     int
	pathLimit bool
	inputs    []ModelVar
	notes     []string // uncontracted calls etc.
	noteSet   map[string]bool
	safeSeq   map[string]int
	arrBorn   map[string]int
	bornFacts map[string]bornFact // born-bound facts by their text (see assumeBornAxiom)
	validFacts map[string]bool    // instances of universally valid schemas (see noteValid)
	needElemAxiom bool
	frameSeq  int
	globals   map[string]*Term
	rootPre   *State
	rootEnvNames map[string]TV
	needSeqCmp bool
	catParts  map[string][2]*Term // seqcat term -> its two operands (for associativity instances)
	rawSel    *ESel               // spec evaluator: method call whose struct result is field-selected at once
	rawDone   bool
	revealing map[string]bool // opaque spec functions whose definition axiom is being built
	curCall   *ssa.CallCommon // static write summaries: the call whose contract items are being resolved
	refArrays map[string][]string // allocated object -> the heap arrays that hold its memory
}

func NewExec(p *Program, cs *ContractSet, cfg Config) *Exec {
	x := &Exec{P: p, CS: cs, cfg: cfg}
	x.reset()
	return x
}

func (x *Exec) reset() {
	x.D = NewDecls()
	x.fresh = 0
	x.typeTags = map[string]int{}
	x.tagTypes = map[int]types.Type{}
	x.strConsts = map[string]*Term{}
	x.strOrder = nil
	x.funcIds = map[string]int{}
	x.funcById = map[int]*ssa.Function{}
	x.fieldIds = map[string]int64{}
	x.allocCount = 0
	x.refArrays = nil
	x.heap0 = map[string]*Term{}
	x.needSeqAxioms = false
	x.catParts = map[string][2]*Term{}
	x.axioms = nil
	x.obls = nil
	x.paths = 0
	x.pathLimit = false
	x.inputs = nil
	x.notes = nil
	x.noteSet = map[string]bool{}
	x.safeSeq = map[string]int{}
	x.arrBorn = map[string]int{}
	x.needElemAxiom = false
	x.globals = map[string]*Term{}
	x.allocBase = x.D.Const("|alloc0|", SInt)
}

func (x *Exec) note(s string) {
	if !x.noteSet[s] {
		x.noteSet[s] = true
		x.notes = append(x.notes, s)
	}
}

// ---------- frames ----------

type loopInfo struct {
	header  *ssa.BasicBlock
	blocks  map[*ssa.BasicBlock]bool
	ordinal int
}

type fnInfo struct {
	loops   map[*ssa.BasicBlock]*loopInfo // header -> info
	ordered []*loopInfo
}

type Frame struct {
	fn      *ssa.Function
	vals    map[ssa.Value]Value
	names   map[string]ssa.Value // source variable -> latest ssa value (DebugRef)
	nameIsAddr map[string]bool
	info    *fnInfo
	con     *FuncContract // contract of this function if it is the root
	depth   int
	defers  []*deferred
	id      int
	loopSnap map[int]*loopSnapshot
	isRoot  bool
	params  []Value
}

type deferred struct {
	call *ssa.CallCommon
	fn   Value
	args []Value
}

type loopSnapshot struct {
	dec   *Term
	frame map[string]*Term // attr loopframe fresh: the forgotten arrays as they are at the loop head
}

func (f *Frame) clone() *Frame {
	n := *f
	n.vals = make(map[ssa.Value]Value, len(f.vals)+8)
	for k, v := range f.vals {
		n.vals[k] = v
	}
	n.names = make(map[string]ssa.Value, len(f.names))
	for k, v := range f.names {
		n.names[k] = v
	}
	n.nameIsAddr = make(map[string]bool, len(f.nameIsAddr))
	for k, v := range f.nameIsAddr {
		n.nameIsAddr[k] = v
	}
	n.defers = append([]*deferred(nil), f.defers...)
	n.loopSnap = make(map[int]*loopSnapshot, len(f.loopSnap))
	for k, v := range f.loopSnap {
		n.loopSnap[k] = v
	}
	return &n
}

var fnInfoCache = map[*ssa.Function]*fnInfo{}

func analyzeLoops(fn *ssa.Function) *fnInfo {
	if fi, ok := fnInfoCache[fn]; ok {
		return fi
	}
	fi := &fnInfo{loops: map[*ssa.BasicBlock]*loopInfo{}}
	// back edge u->h where h dominates u
	for _, b := range fn.Blocks {
		for _, s := range b.Succs {
			if s.Dominates(b) {
				li := fi.loops[s]
				if li == nil {
					li = &loopInfo{header: s, blocks: map[*ssa.BasicBlock]bool{s: true}}
					fi.loops[s] = li
				}
				// natural loop: all nodes that reach b without passing through s
				stack := []*ssa.BasicBlock{b}
				for len(stack) > 0 {
					n := stack[len(stack)-1]
					stack = stack[:len(stack)-1]
					if li.blocks[n] {
						continue
					}
					li.blocks[n] = true
					for _, p := range n.Preds {
						stack = append(stack, p)
					}
				}
			}
		}
	}
	for _, li := range fi.loops {
		fi.ordered = append(fi.ordered, li)
	}
	sort.Slice(fi.ordered, func(i, j int) bool { return fi.ordered[i].header.Index < fi.ordered[j].header.Index })
	for i, li := range fi.ordered {
		li.ordinal = i
	}
	fnInfoCache[fn] = fi
	return fi
}

// ---------- obligations ----------

func (x *Exec) emit(st *State, kind, label string, goal *Term, expectSat bool, where string) {
	if st.dead {
		return
	}
	if !expectSat && goal.IsConst && goal.BoolVal {
		// trivially true: still record as discharged-syntactically
		x.obls = append(x.obls, &Obl{Name: x.rootKey + "#" + kind + ":" + label, Func: x.rootKey, Kind: kind, Props: x.rootProps(), PathID: x.paths, Goal: TTrue, Where: where})
		return
	}
	o := &Obl{
		Name:      x.rootKey + "#" + kind + ":" + label,
		Func:      x.rootKey,
		Kind:      kind,
		Props:     x.rootProps(),
		PathID:    x.paths,
		PC:        st.PC(),
		Goal:      goal,
		ExpectSat: expectSat,
		Trace:     append([]string(nil), st.trace...),
		Where:     where,
	}
	x.obls = append(x.obls, o)
}

func (x *Exec) rootProps() []string {
	if x.rootC != nil {
		return x.rootC.Props
	}
	return nil
}

// ---------- running a function under contract ----------

type pathEnd struct {
	st      *State
	results []Value
	panicked bool
	fr      *Frame
}

// VerifyFunction symbolically executes fn against its contract and returns obligations.
func (x *Exec) VerifyFunction(fn *ssa.Function, con *FuncContract) (obls []*Obl, err error) {
	x.reset()
	x.root = fn
	x.rootC = con
	x.rootKey = funcKey(fn)
	defer func() {
		if r := recover(); r != nil {
			if u, ok := r.(*Unsupported); ok {
				err = fmt.Errorf("%s: %v", x.rootKey, u)
				return
			}
			if se, ok := r.(*SpecError); ok {
				err = fmt.Errorf("%s: contract error: %v", x.rootKey, se)
				return
			}
			panic(r)
		}
	}()
	if fn.Blocks == nil {
		return nil, fmt.Errorf("%s: no body", x.rootKey)
	}
	if fi := x.finals(); len(fi.errs) > 0 {
		// a rejected "final" declaration invalidates every proof that might have used it
		unsupported("%s", strings.Join(fi.errs, "; "))
	}
	if con != nil && con.Attrs["local"] != "" {
		return x.verifyLocal(fn, con)
	}
	st := NewState()
	st.Assume(IntCmp(">", x.allocBase, IntConstI(0)))
	fr := x.newFrame(fn, 0)
	fr.isRoot = true
	fr.con = con
	// parameters
	env := x.newSpecEnv(fr, st, nil)
	for i, p := range fn.Params {
		name := p.Name()
		v := x.freshValue(st, p.Type(), "in."+name)
		x.markOld(st, p.Type(), v)
		fr.vals[p] = v
		fr.params = append(fr.params, v)
		cname := name
		if con != nil {
			cname = x.contractParamName(fn, con, i)
		}
		env.bind(cname, TV{v, p.Type()})
		env.bind(cname+"0", TV{v, p.Type()})
		if name != "" && name != cname {
			env.bind(name, TV{v, p.Type()})
		}
		x.recordInput(cname, p.Type(), v)
	}
	for _, fv := range fn.FreeVars {
		v := x.freshValue(st, fv.Type(), "free."+fv.Name())
		fr.vals[fv] = v
		// free variables are pointers to the captured variable
		env.bindLazyDeref(fv.Name(), v, fv.Type())
	}
	x.emitOwned(st, fn, con)
	pre := st.Clone()
	env.st = st
	env.old = pre
	// lets + requires
	if con != nil {
		for _, c := range con.Clauses {
			switch c.Kind {
			case "let":
				// lets that mention results or recorded calls cannot be evaluated at entry: they are
				// evaluated in the post-state instead
				func() {
					defer func() {
						if r := recover(); r != nil {
							if _, ok := r.(*SpecError); ok {
								return
							}
							panic(r)
						}
					}()
					tv := x.evalSpec(env, c.E)
					env.bind(c.Name, tv)
				}()
			case "requires":
				t := x.specBool(env, c.E)
				st.Assume(t)
			}
		}
		x.emit(st, "reach", "pre", TTrue, true, "requires satisfiable")
	}
	pre = st.Clone()
	x.rootPre = pre
	x.rootEnvNames = env.names
	x.runFunction(fr, st, func(end *pathEnd) {
		x.paths++
		if end.panicked {
			return
		}
		if con == nil {
			return
		}
		penv := x.newSpecEnv(fr, end.st, pre)
		if end.fr != nil {
			// local variables of the function (their values at this return) may be named in postconditions
			x.bindFrameNames(penv, end.fr)
		}
		for k, v := range env.names {
			penv.names[k] = v
		}
		for k, v := range env.lazy {
			penv.lazy[k] = v
		}
		rs := fn.Signature.Results()
		for i := 0; i < rs.Len(); i++ {
			rn := fmt.Sprintf("r%d", i)
			if i < len(con.Results) {
				rn = con.Results[i]
			}
			penv.bind(rn, TV{end.results[i], rs.At(i).Type()})
			if rs.Len() == 1 {
				penv.bind("result", TV{end.results[i], rs.At(i).Type()})
			}
		}
		for _, c := range con.Clauses {
			switch c.Kind {
			case "let":
				// re-evaluate lets that mention results (post-state lets); ignore failures silently
				func() {
					defer func() {
						if r := recover(); r != nil {
							if _, ok := r.(*Unsupported); ok {
								return
							}
							if _, ok := r.(*SpecError); ok {
								return
							}
							panic(r)
						}
					}()
					if _, bound := env.names[c.Name]; !bound {
						penv.bind(c.Name, x.evalSpec(penv, c.E))
					}
				}()
			case "ensures":
				g := x.specBool(penv, c.E)
				x.emit(end.st, "ensures", c.Label, g, false, c.Line)
				// vacuity cover for implications: antecedent reachable at exit
				if b, ok := c.E.(*EBinary); ok && b.Op == "==>" {
					a := x.specBool(penv, b.X)
					cst := end.st.Clone()
					cst.Assume(a)
					x.emit(cst, "reach", "ante:"+c.Label, TTrue, true, c.Line)
				}
			case "cover":
				g := x.specBool(penv, c.E)
				cst := end.st.Clone()
				cst.Assume(g)
				x.emit(cst, "reach", "cover:"+c.Label, TTrue, true, c.Line)
			}
		}
		x.emit(end.st, "reach", "return", TTrue, true, "some return reachable")
		x.checkFrame(fr, con, env, end.st, pre)
	})
	if x.pathLimit {
		return x.obls, fmt.Errorf("%s: path limit (%d) exceeded", x.rootKey, x.cfg.MaxPaths)
	}
	return x.obls, nil
}

func (x *Exec) contractParamName(fn *ssa.Function, con *FuncContract, i int) string {
	// receiver is Params[0] for methods
	if fn.Signature.Recv() != nil {
		if i == 0 {
			if con.Recv != "" {
				return con.Recv
			}
			return "recv"
		}
		if i-1 < len(con.Params) {
			return con.Params[i-1]
		}
	} else if i < len(con.Params) {
		return con.Params[i]
	}
	return fn.Params[i].Name()
}

func (x *Exec) recordInput(name string, t types.Type, v Value) {
	switch vv := v.(type) {
	case *Term:
		x.inputs = append(x.inputs, ModelVar{name, vv.S, vv.Sort.String()})
	case *SliceV:
		x.inputs = append(x.inputs, ModelVar{name + ".base", vv.Base.S, "Int"}, ModelVar{name + ".off", vv.Off.S, "BV64"}, ModelVar{name + ".len", vv.Len.S, "BV64"})
	case *IfaceV:
		x.inputs = append(x.inputs, ModelVar{name + ".tag", vv.Tag.S, "Int"}, ModelVar{name + ".ref", vv.Ref.S, "Int"})
	case *PtrV:
		x.inputs = append(x.inputs, ModelVar{name + ".ref", vv.Ref.S, "Int"})
	}
}

// markOld asserts that references inside an input value existed at entry.
func (x *Exec) markOld(st *State, t types.Type, v Value) {
	switch vv := v.(type) {
	case *PtrV:
		x.assumeOld(st, vv.Ref)
	case *SliceV:
		x.assumeOld(st, vv.Base)
	case *IfaceV:
		x.assumeOld(st, vv.Ref)
	case *Term:
		if _, ok := t.Underlying().(*types.Map); ok {
			x.assumeOld(st, vv)
		}
	case *StructV:
		for i, f := range vv.Fields {
			x.markOld(st, vv.T.Field(i).Type(), f)
		}
	}
}

var frameCounter int

func (x *Exec) newFrame(fn *ssa.Function, depth int) *Frame {
	frameCounter++
	return &Frame{fn: fn, vals: map[ssa.Value]Value{}, names: map[string]ssa.Value{}, nameIsAddr: map[string]bool{}, info: analyzeLoops(fn), depth: depth, id: frameCounter, loopSnap: map[int]*loopSnapshot{}}
}

func (x *Exec) runFunction(fr *Frame, st *State, k func(*pathEnd)) {
	x.runBlock(fr, st, fr.fn.Blocks[0], nil, k)
}

// ---------- block execution ----------

func (x *Exec) runBlock(fr *Frame, st *State, b *ssa.BasicBlock, pred *ssa.BasicBlock, k func(*pathEnd)) {
	if st.dead || x.pathLimit {
		return
	}
	if x.localReach != nil && fr.isRoot && !x.localReach[b] {
		return // local mode: this path can no longer reach the call site under verification
	}
	// loop header handling
	if li := fr.info.loops[b]; li != nil {
		fromInside := pred != nil && li.blocks[pred]
		if !x.loopHeader(fr, st, b, pred, li, fromInside) {
			return
		}
		// after loopHeader, phis are already bound; skip them below
		x.runInstrs(fr, st, b, pred, true, k)
		return
	}
	x.runInstrs(fr, st, b, pred, false, k)
}

func (x *Exec) loopClauses(fr *Frame, ord int) (invs []*Clause, dec *Clause, unroll int) {
	unroll = -1
	con := x.contractFor(fr.fn)
	if con == nil {
		return
	}
	for _, c := range con.Clauses {
		if c.Loop != ord {
			continue
		}
		switch c.Kind {
		case "loopinv":
			invs = append(invs, c)
		case "loopdec":
			dec = c
		case "loopunroll":
			unroll = c.N
		}
	}
	return
}

func (x *Exec) contractFor(fn *ssa.Function) *FuncContract {
	return x.CS.Funcs[funcKey(fn)]
}

// loopHeader returns false if the path ends here.
func (x *Exec) loopHeader(fr *Frame, st *State, b, pred *ssa.BasicBlock, li *loopInfo, fromInside bool) bool {
	invs, dec, unroll := x.loopClauses(fr, li.ordinal)
	fnk := funcKey(fr.fn)
	lname := fmt.Sprintf("loop%d", li.ordinal)
	if fnk != x.rootKey {
		lname = fnk[strings.LastIndex(fnk, "/")+1:] + ":" + lname
	}
	if unroll >= 0 {
		key := fr.id*10000 + b.Index
		st.visits[key]++
		if st.visits[key] > unroll+1 {
			// unwinding assertion: this point must be unreachable
			x.emit(st, "unwind", lname, TFalse, false, "")
			return false
		}
		x.bindPhis(fr, st, b, pred)
		return true
	}
	// evaluate invariant with the incoming phi values
	x.bindPhis(fr, st, b, pred)
	env := x.loopEnv(fr, st, b)
	kind := "entry"
	if fromInside {
		kind = "preserve"
	}
	for i, c := range invs {
		if name, ok := privateInvVar(c.E); ok {
			// private(x): decided by the escape analysis of this path (zz_private.go)
			g := TFalse
			if x.isPrivateNow(st, x.evalSpec(env, &EIdent{name}).V) {
				g = TTrue
			}
			x.emit(st, "inv", fmt.Sprintf("%s:%s:%d", lname, kind, i), g, false, c.Line)
			continue
		}
		g := x.specBool(env, c.E)
		x.emit(st, "inv", fmt.Sprintf("%s:%s:%d", lname, kind, i), g, false, c.Line)
	}
	// implicit invariant of range-over-slice loops: the hidden index is at least -1
	if g := x.rangeIndexInv(fr, b); g != nil {
		x.emit(st, "inv", fmt.Sprintf("%s:%s:rangeindex", lname, kind), g, false, "")
	}
	if fromInside {
		if snap := fr.loopSnap[b.Index]; snap != nil && snap.frame != nil {
			x.checkEntryFrame(st, lname, snap.frame)
		}
		if dec != nil {
			snap := fr.loopSnap[b.Index]
			if snap != nil && snap.dec != nil {
				d, signed := x.specMeasure(env, dec.E)
				var g *Term
				switch {
				case d.Sort.K == KInt:
					g = And(IntCmp(">=", snap.dec, IntConstI(0)), IntCmp("<", d, snap.dec))
				case signed:
					g = And(BVCmp("bvsge", snap.dec, BVConstU(0, d.Sort.W)), BVCmp("bvslt", d, snap.dec))
				default:
					g = BVCmp("bvult", d, snap.dec)
				}
				x.emit(st, "decreases", lname, g, false, dec.Line)
			}
		}
		return false
	}
	// havoc loop-modified state
	for _, ins := range b.Instrs {
		phi, ok := ins.(*ssa.Phi)
		if !ok {
			break
		}
		fr.vals[phi] = x.freshValue(st, phi.Type(), "loop."+phi.Comment)
		x.boundValueRefs(st, fr.vals[phi])
	}
	var before map[string]*Term
	if x.loopFrameFresh(fr) {
		before = make(map[string]*Term, len(st.heap))
		for n, t := range st.heap {
			before[n] = t
		}
	}
	x.havocLoopHeap(fr, st, li)
	x.havocTokens(st)
	snapNew := &loopSnapshot{}
	if before != nil {
		snapNew.frame = x.assumeEntryFrame(st, before)
	}
	env = x.loopEnv(fr, st, b)
	for _, c := range invs {
		if name, ok := privateInvVar(c.E); ok {
			x.assumePrivate(st, x.evalSpec(env, &EIdent{name}).V)
			continue
		}
		st.Assume(x.specBool(env, c.E))
	}
	if g := x.rangeIndexInv(fr, b); g != nil {
		st.Assume(g)
	}
	if dec != nil {
		d, _ := x.specMeasure(env, dec.E)
		snapNew.dec = d
	}
	if snapNew.dec != nil || snapNew.frame != nil {
		fr.loopSnap[b.Index] = snapNew
	}
	cst := st.Clone()
	x.emit(cst, "reach", lname+":head", TTrue, true, "")
	return true
}

func (x *Exec) loopEnv(fr *Frame, st *State, b *ssa.BasicBlock) *SpecEnv {
	env := x.newSpecEnv(fr, st, x.rootPre)
	if fr.isRoot {
		x.bindRootParams(env)
	}
	x.bindFrameNames(env, fr)
	for _, ins := range b.Instrs {
		phi, ok := ins.(*ssa.Phi)
		if !ok {
			break
		}
		if phi.Comment != "" {
			env.bind(phi.Comment, TV{fr.vals[phi], phi.Type()})
		}
	}
	// map-range loops: the ghost set of keys already visited
	for _, ins := range b.Instrs {
		if nx, ok := ins.(*ssa.Next); ok {
			if it, ok := fr.vals[nx.Iter].(*IterV); ok && !it.Str {
				if vis, ok := st.ghost[it.Visited].(*Term); ok {
					env.bind("visited", TV{V: &SpecVal{Kind: "other", T: vis}})
				}
			}
		}
	}
	// nested map-range loops: visited<N> is the visited set of loop N of this function
	if fr.info != nil {
		for _, li := range fr.info.ordered {
			for _, ins := range li.header.Instrs {
				if nx, ok := ins.(*ssa.Next); ok {
					if it, ok := fr.vals[nx.Iter].(*IterV); ok && !it.Str {
						if vis, ok := st.ghost[it.Visited].(*Term); ok {
							env.bind(fmt.Sprintf("visited%d", li.ordinal), TV{V: &SpecVal{Kind: "other", T: vis}})
						}
					}
				}
			}
		}
	}
	return env
}

// bindFrameNames exposes parameters and debug-named locals of a frame.
func (x *Exec) bindFrameNames(env *SpecEnv, fr *Frame) {
	con := x.contractFor(fr.fn)
	for i, p := range fr.fn.Params {
		if v, ok := fr.vals[p]; ok {
			n := p.Name()
			if con != nil {
				n = x.contractParamName(fr.fn, con, i)
			}
			env.bind(n, TV{v, p.Type()})
			env.bind(n+"0", TV{v, p.Type()}) // entry value (parameters are mutable in Go)
			if p.Name() != "" {
				env.bind(p.Name(), TV{v, p.Type()})
				env.bind(p.Name()+"0", TV{v, p.Type()})
			}
		}
	}
	for name, sv := range fr.names {
		v, ok := fr.vals[sv]
		if !ok {
			if !(x.localLazy && fr.isRoot) {
				continue
			}
			// local mode: a variable defined before the starting point has an arbitrary value
			v = x.operand(fr, env.state(), sv)
		}
		if fr.nameIsAddr[name] {
			env.bindLazyDeref(name, v, sv.Type())
		} else {
			env.bind(name, TV{v, sv.Type()})
		}
	}
	for _, fv := range fr.fn.FreeVars {
		if v, ok := fr.vals[fv]; ok {
			env.bindLazyDeref(fv.Name(), v, fv.Type())
		}
	}
}

func (x *Exec) havocLoopHeap(fr *Frame, st *State, li *loopInfo) {
	all := false
	nonLocal := false
	names := map[string]bool{}
	writesOld := map[string]bool{} // arrays that may be written at objects that existed at entry
	summarised := map[string]bool{} // arrays written by calls known only through a write summary
	for b := range li.blocks {
		for _, ins := range b.Instrs {
			switch i := ins.(type) {
			case *ssa.Store:
				local := storeRootIsLocal(i.Addr)
				for _, n := range x.arraysOfStore(i.Addr) {
					names[n] = true
					if !local {
						writesOld[n] = true
					}
				}
				if !local {
					nonLocal = true
				}
			case *ssa.MapUpdate:
				// a map update writes the domain/value arrays of that map type only
				if mt, ok := i.Map.Type().Underlying().(*types.Map); ok {
					n := mapPrefix(mt)
					names[n] = true
					writesOld[n] = true
					nonLocal = true
				} else {
					all = true
				}
			case ssa.CallInstruction:
				if bi, ok := i.Common().Value.(*ssa.Builtin); ok && (bi.Name() == "append" || bi.Name() == "copy") {
					// append writes a freshly allocated backing array (model: always reallocates);
					// copy writes the destination's elements, which may be memory that existed at entry
					if sl, ok := i.Common().Args[0].Type().Underlying().(*types.Slice); ok {
						if _, isS := sl.Elem().Underlying().(*types.Struct); isS {
							for _, n := range x.arraysOfStructType(sl.Elem()) {
								names[n] = true
								if bi.Name() == "copy" {
									writesOld[n] = true
								}
							}
						} else {
							n := elemPrefix(sl.Elem())
							names[n] = true
							if bi.Name() == "copy" {
								writesOld[n] = true
							}
						}
						continue
					}
				}
				if fn := i.Common().StaticCallee(); fn != nil && strings.HasPrefix(funcKey(fn), "math/big.") && !i.Common().IsInvoke() {
					switch fn.Name() {
					case "Sign", "IsUint64", "IsInt64", "Cmp", "CmpAbs", "Uint64", "Int64", "String", "Text", "BitLen":
						continue // observers: they do not change any big integer
					}
					// big-integer intrinsics write only the abstract value of their receiver
					names["BigVal"] = true
					if len(i.Common().Args) == 0 || !bigFreshRooted(i.Common().Args[0], 0) {
						if funcKey(fn) != "math/big.NewInt" {
							writesOld["BigVal"] = true
						}
					}
					continue
				}
				if bi, ok := i.Common().Value.(*ssa.Builtin); ok && bi.Name() == "delete" {
					// delete writes the domain/value arrays of that map type only
					if mt, ok := i.Common().Args[0].Type().Underlying().(*types.Map); ok {
						n := mapPrefix(mt)
						names[n] = true
						writesOld[n] = true
						nonLocal = true
						continue
					}
				}
				if fn := i.Common().StaticCallee(); fn != nil && !i.Common().IsInvoke() {
					if con := x.CS.Funcs[funcKey(fn)]; con != nil && !con.Inline && !con.Pure {
						// a contracted callee writes what its assigns clause lists
						if ns, ok := x.assignsArrayNames(fn, con); ok {
							for _, n := range ns {
								names[n] = true
								writesOld[n] = true
							}
							nonLocal = true
							continue
						}
					}
				}
				if x.callMayWriteHeap(i.Common()) {
					// an uncontracted function of this module (inlined when executed) writes what its
					// body writes; reach(p) frames are resolved by the static type of the argument
					if ns, ok := x.callWriteNames(i.Common()); ok {
						for _, n := range ns {
							names[n] = true
							writesOld[n] = true
							summarised[n] = true
						}
						nonLocal = true
						continue
					}
					all = true
				}
			case *ssa.Next:
				// iterator state is ghost; handled through st.ghost havoc below
			}
		}
	}
	if all {
		x.heapHavocAllKeeping(st, x.loopInvariantLocals(fr, st, li))
	} else {
		// writes whose target is the same in every iteration leave the rest of their array alone
		lt := x.collectLoopTargets(fr, st, li, names)
		for n := range summarised {
			lt.untargeted[n] = true
		}
		// arrays known from the entry state (touched by the precondition) but not yet on this path:
		// bring them in, so that their havoc is related to the entry heap by the frame fact
		for n0, t0 := range x.heap0 {
			if _, have := st.heap[n0]; have || x.heapGenOf(st, n0) != "0" {
				continue
			}
			for pfx := range names {
				if (n0 == pfx || strings.HasPrefix(n0, pfx+".")) && !lt.untargeted[pfx] && len(lt.idx[pfx]) > 0 {
					st.heap[n0] = t0
				}
			}
		}
		// havoc every current heap array whose name matches
		for n := range st.heap {
			for pfx := range names {
				if n == pfx || strings.HasPrefix(n, pfx+".") {
					old := st.heap[n]
					x.heapHavoc(st, n)
					// the loop itself writes this array: what was cached about locals and private
					// objects (kept across a callee's havoc) is not valid at an arbitrary iteration
					delete(st.fwd, n)
					if !lt.untargeted[pfx] && len(lt.idx[pfx]) > 0 {
						x.assumeLoopFrame(st, old, st.heap[n], lt.idx[pfx])
					}
					if (!writesOld[pfx] || x.loopFrameFresh(fr)) && old.Sort.Idx.K == KInt {
						// every store to this array inside the loop targets an object allocated during this
						// run, so memory that existed at entry still reads as before the loop
						base := old
						if c := st.fwd[n]; c != nil && c.arr == old.S && c.allFresh && c.base != nil {
							base = c.base
						}
						if st.fwd == nil {
							st.fwd = map[string]*fwdCache{}
						}
						st.fwd[n] = &fwdCache{arr: st.heap[n].S, ent: map[string]*Term{}, base: base, allFresh: true}
						// the same fact for the solver (the cache above only serves syntactically
						// classified references): memory that existed at entry is unchanged
						cur := st.heap[n]
						st.Assume(&Term{S: fmt.Sprintf("(forall ((|lo?r| Int)) (! (=> (<= |lo?r| (* %d |alloc0|)) (= (select %s |lo?r|) (select %s |lo?r|))) :pattern ((select %s |lo?r|))))", refK, cur.S, base.S, cur.S), Sort: SBool})
					}
				}
			}
		}
		x.fresh++
		for pfx := range names {
			x.recordLoopHavoc(st, pfx, fmt.Sprintf("l%d", x.fresh), !writesOld[pfx] || x.loopFrameFresh(fr))
		}
		if nonLocal {
			x.bumpEpoch(st)
		}
	}
	// iterators
	for b := range li.blocks {
		for _, ins := range b.Instrs {
			if nx, ok := ins.(*ssa.Next); ok {
				if it, ok := fr.vals[nx.Iter].(*IterV); ok && !it.Str {
					mt := it.MapT
					ks := x.mapKeySort(mt)
					st.ghost[it.Visited] = x.freshSym("visited", ArraySort(ks, SBool))
				}
			}
		}
	}
}

// arraysOfStore returns heap array name prefixes a store through addr may write.
func (x *Exec) arraysOfStore(addr ssa.Value) []string {
	pt, ok := addr.Type().Underlying().(*types.Pointer)
	if !ok {
		return nil
	}
	switch a := addr.(type) {
	case *ssa.FieldAddr:
		st := a.X.Type().Underlying().(*types.Pointer).Elem()
		f := st.Underlying().(*types.Struct).Field(a.Field)
		if _, isS := f.Type().Underlying().(*types.Struct); isS {
			return x.arraysOfStructType(f.Type())
		}
		return []string{fieldPrefix(structKey(st), f.Name())}
	case *ssa.IndexAddr:
		if sl, ok := a.X.Type().Underlying().(*types.Slice); ok {
			if _, isS := sl.Elem().Underlying().(*types.Struct); isS {
				return x.arraysOfStructType(sl.Elem())
			}
			return []string{elemPrefix(sl.Elem())}
		}
		// pointer to array
		if pa, ok := a.X.Type().Underlying().(*types.Pointer); ok {
			return x.arraysOfStore2(a.X, pa.Elem())
		}
	}
	if _, isS := pt.Elem().Underlying().(*types.Struct); isS {
		return x.arraysOfStructType(pt.Elem())
	}
	return []string{cellPrefix(pt.Elem())}
}

func (x *Exec) arraysOfStore2(addr ssa.Value, elem types.Type) []string {
	if fa, ok := addr.(*ssa.FieldAddr); ok {
		st := fa.X.Type().Underlying().(*types.Pointer).Elem()
		f := st.Underlying().(*types.Struct).Field(fa.Field)
		return []string{fieldPrefix(structKey(st), f.Name())}
	}
	return []string{cellPrefix(elem)}
}

func (x *Exec) arraysOfStructType(t types.Type) []string {
	u := t.Underlying().(*types.Struct)
	var out []string
	for i := 0; i < u.NumFields(); i++ {
		f := u.Field(i)
		if _, isS := f.Type().Underlying().(*types.Struct); isS {
			out = append(out, x.arraysOfStructType(f.Type())...)
		} else {
			out = append(out, fieldPrefix(structKey(t), f.Name()))
		}
	}
	return out
}

func (x *Exec) callMayWriteHeap(c *ssa.CallCommon) bool {
	if c.IsInvoke() {
		if con := x.CS.Funcs[x.ifaceMethodKey(c)]; con != nil && con.Pure {
			return false // (trusted) contract on the interface method
		}
		return !x.isPureInvoke(c)
	}
	if b, ok := c.Value.(*ssa.Builtin); ok {
		switch b.Name() {
		case "len", "cap", "min", "max", "panic", "print", "println":
			return false
		}
		return true
	}
	if fn := c.StaticCallee(); fn != nil {
		k := funcKey(fn)
		if pureIntrinsics[k] || isLoggingKey(k) || x.isPureCall(k) {
			return false
		}
		if con := x.CS.Funcs[k]; con != nil && con.Pure {
			return false
		}
		if x.P.InModule(fn) && fn.Blocks != nil {
			return x.fnMayWriteHeap(fn, 0)
		}
	} else if x.isPureFuncValue(c.Value) {
		return false
	}
	return true
}

// isPureFuncValue: a function value read from a field / variable declared with "purefunc".
func (x *Exec) isPureFuncValue(v ssa.Value) bool {
	src := x.describeFuncSource(v)
	if i := strings.LastIndex(src, "."); i >= 0 {
		src = src[i+1:]
	}
	return src != "" && x.CS.PureIface["purefunc:"+src]
}

var mayWriteCache = map[*ssa.Function]int{} // 1 no, 2 yes

func (x *Exec) fnMayWriteHeap(fn *ssa.Function, depth int) bool {
	if v, ok := mayWriteCache[fn]; ok {
		return v == 2
	}
	if depth > 4 {
		return true
	}
	mayWriteCache[fn] = 2 // recursion guard: assume writes
	res := false
	for _, b := range fn.Blocks {
		for _, ins := range b.Instrs {
			switch i := ins.(type) {
			case *ssa.Store:
				// stores to local allocs are fine only if alloc is local non-escaping; be conservative: only allow stores to Alloc of this fn
				if al, ok := i.Addr.(*ssa.Alloc); ok && !al.Heap {
					continue
				}
				res = true
			case *ssa.MapUpdate, *ssa.Send, *ssa.Go:
				res = true
			case ssa.CallInstruction:
				if x.callMayWriteHeapDepth(i.Common(), depth+1) {
					res = true
				}
			}
		}
	}
	if res {
		mayWriteCache[fn] = 2
	} else {
		mayWriteCache[fn] = 1
	}
	return res
}

func (x *Exec) callMayWriteHeapDepth(c *ssa.CallCommon, depth int) bool {
	if c.IsInvoke() {
		if con := x.CS.Funcs[x.ifaceMethodKey(c)]; con != nil && con.Pure {
			return false // (trusted) contract on the interface method
		}
		return !x.isPureInvoke(c)
	}
	if b, ok := c.Value.(*ssa.Builtin); ok {
		switch b.Name() {
		case "len", "cap", "min", "max", "panic", "print", "println":
			return false
		}
		return true
	}
	if fn := c.StaticCallee(); fn != nil {
		k := funcKey(fn)
		if pureIntrinsics[k] || isLoggingKey(k) || x.isPureCall(k) {
			return false
		}
		if con := x.CS.Funcs[k]; con != nil && con.Pure {
			return false
		}
		if x.P.InModule(fn) && fn.Blocks != nil {
			return x.fnMayWriteHeap(fn, depth)
		}
	} else if x.isPureFuncValue(c.Value) {
		return false
	}
	return true
}

func (x *Exec) bindPhis(fr *Frame, st *State, b, pred *ssa.BasicBlock) {
	if pred == nil {
		return
	}
	idx := -1
	for i, p := range b.Preds {
		if p == pred {
			idx = i
			break
		}
	}
	// evaluate all phis simultaneously
	var phis []*ssa.Phi
	var vals []Value
	for _, ins := range b.Instrs {
		phi, ok := ins.(*ssa.Phi)
		if !ok {
			break
		}
		phis = append(phis, phi)
		vals = append(vals, x.operand(fr, st, phi.Edges[idx]))
	}
	for i, phi := range phis {
		fr.vals[phi] = vals[i]
	}
}

func (x *Exec) runInstrs(fr *Frame, st *State, b, pred *ssa.BasicBlock, phisBound bool, k func(*pathEnd)) {
	if !phisBound {
		x.bindPhis(fr, st, b, pred)
	}
	x.runFrom(fr, st, b, 0, k)
}

// runFrom executes instructions of b starting at index i.
func (x *Exec) runFrom(fr *Frame, st *State, b *ssa.BasicBlock, start int, k func(*pathEnd)) {
	for i := start; i < len(b.Instrs); i++ {
		if st.dead || x.pathLimit {
			return
		}
		ins := b.Instrs[i]
		switch in := ins.(type) {
		case *ssa.Phi:
			continue
		case *ssa.DebugRef:
			if id, ok := in.Expr.(interface{ String() string }); ok {
				_ = id
			}
			if in.Object() != nil {
				if _, isVar := in.Object().(*types.Var); isVar {
					fr.names[in.Object().Name()] = in.X
					fr.nameIsAddr[in.Object().Name()] = in.IsAddr
				}
			}
			continue
		case *ssa.If:
			c := st.refine(x.operand(fr, st, in.Cond).(*Term))
			if c.IsConst {
				if c.BoolVal {
					x.runBlock(fr, st, b.Succs[0], b, k)
				} else {
					x.runBlock(fr, st, b.Succs[1], b, k)
				}
				return
			}
			x.fork(fr, st, c, func(fr2 *Frame, st2 *State) {
				x.runBlock(fr2, st2, b.Succs[0], b, k)
			}, func(fr2 *Frame, st2 *State) {
				x.runBlock(fr2, st2, b.Succs[1], b, k)
			})
			return
		case *ssa.Jump:
			x.runBlock(fr, st, b.Succs[0], b, k)
			return
		case *ssa.Return:
			var rs []Value
			for _, r := range in.Results {
				rs = append(rs, x.operand(fr, st, r))
			}
			if fr.isRoot {
				x.escapeArgs(st, rs)
			}
			k(&pathEnd{st: st, results: rs, fr: fr})
			return
		case *ssa.Panic:
			x.onPanic(fr, st, "explicit panic", in.Pos())
			k(&pathEnd{st: st, panicked: true})
			return
		case *ssa.RunDefers:
			// run deferred calls LIFO, then continue
			x.runDefers(fr, st, b, i, k)
			return
		case *ssa.Call:
			// calls may fork (inlining): continue in continuation
			x.doCall(fr, st, in, in.Common(), func(fr2 *Frame, st2 *State, res Value) {
				if in.Type() != nil {
					fr2.vals[in] = res
				}
				x.runFrom(fr2, st2, b, i+1, k)
			}, k)
			return
		case *ssa.Defer:
			d := &deferred{call: in.Common()}
			if !in.Common().IsInvoke() {
				if _, isB := in.Common().Value.(*ssa.Builtin); !isB {
					d.fn = x.operand(fr, st, in.Common().Value)
				}
			} else {
				d.fn = x.operand(fr, st, in.Common().Value)
			}
			for _, a := range in.Common().Args {
				d.args = append(d.args, x.operand(fr, st, a))
			}
			x.escapeArgs(st, d.args)
			x.escapeValue(st, d.fn)
			fr.defers = append(fr.defers, d)
			continue
		case *ssa.Go:
			// spawned goroutine: havoc everything reachable -> whole heap
			x.note("go statement in " + funcKey(fr.fn) + ": heap havocked")
			for _, a := range in.Common().Args {
				x.escapeValue(st, x.operand(fr, st, a))
			}
			if _, isB := in.Common().Value.(*ssa.Builtin); !isB {
				x.escapeValue(st, x.operand(fr, st, in.Common().Value))
			}
			x.heapHavocAll(st)
			continue
		case *ssa.TypeAssert:
			x.doTypeAssert(fr, st, in, func(fr2 *Frame, st2 *State) {
				x.runFrom(fr2, st2, b, i+1, k)
			}, k)
			return
		default:
			if forked := x.step(fr, st, ins, func(fr2 *Frame, st2 *State) {
				x.runFrom(fr2, st2, b, i+1, k)
			}, k); forked {
				return
			}
		}
	}
}

func (x *Exec) fork(fr *Frame, st *State, c *Term, thenK, elseK func(*Frame, *State)) {
	st2 := st.Clone()
	fr2 := fr.clone()
	st.Assume(c)
	st2.Assume(Not(c))
	st.learn(c)
	st2.learn(Not(c))
	x.countPath()
	thenK(fr, st)
	elseK(fr2, st2)
}

func (x *Exec) countPath() {
	x.paths++
	if x.cfg.MaxPaths > 0 && x.paths > x.cfg.MaxPaths {
		x.pathLimit = true
	}
}

func (x *Exec) onPanic(fr *Frame, st *State, what string, pos token.Pos) {
	// reachable panic: a safety obligation unless the contract allows it
	if x.rootC != nil && x.rootC.MayPanic {
		return
	}
	if !x.cfg.SafeChecks {
		return
	}
	x.emitSafe(fr, st, "panic", TFalse, pos)
}

func (x *Exec) emitSafe(fr *Frame, st *State, kind string, goal *Term, pos token.Pos) {
	if !x.cfg.SafeChecks {
		return
	}
	fk := funcKey(fr.fn)
	short := fk[strings.LastIndex(fk, "/")+1:]
	key := short + ":" + kind
	// stable ordinal: position of pos among same-kind sites is approximated by line offset from function start
	line := 0
	if pos.IsValid() {
		p := x.P.Prog.Fset.Position(pos)
		fp := x.P.Prog.Fset.Position(fr.fn.Pos())
		line = p.Line - fp.Line
		key = fmt.Sprintf("%s:%s:+%d.%d", short, kind, line, p.Column)
	}
	where := ""
	if pos.IsValid() {
		where = x.P.Prog.Fset.Position(pos).String()
	}
	x.emit(st, "safe", key, goal, false, where)
}

func (x *Exec) runDefers(fr *Frame, st *State, b *ssa.BasicBlock, i int, k func(*pathEnd)) {
	if len(fr.defers) == 0 {
		x.runFrom(fr, st, b, i+1, k)
		return
	}
	d := fr.defers[len(fr.defers)-1]
	fr.defers = fr.defers[:len(fr.defers)-1]
	x.callValue(fr, st, d.call, d.fn, d.args, nil, func(fr2 *Frame, st2 *State, res Value) {
		x.runDefers(fr2, st2, b, i, k)
	}, k)
}

// ---------- operands ----------

func (x *Exec) operand(fr *Frame, st *State, v ssa.Value) Value {
	switch c := v.(type) {
	case *ssa.Const:
		return x.constValue(c)
	case *ssa.Global:
		return x.globalPtr(c)
	case *ssa.Function:
		return &FuncV{Fn: c}
	case *ssa.Builtin:
		return &FuncV{}
	}
	if val, ok := fr.vals[v]; ok {
		return val
	}
	if x.localLazy && fr.isRoot {
		// local mode: a value defined before the starting point is an arbitrary value of its type
		val := x.freshValue(st, v.Type(), "lazy."+v.Name())
		fr.vals[v] = val
		return val
	}
	unsupported("operand %s (%T) undefined in %s", v.Name(), v, funcKey(fr.fn))
	return nil
}

func (x *Exec) globalPtr(g *ssa.Global) *PtrV {
	name := g.Pkg.Pkg.Path() + "." + g.Name()
	t, ok := x.globals[name]
	if !ok {
		t = IntConstI(-int64(len(x.globals)+1) * refK)
		x.globals[name] = t
	}
	return &PtrV{Ref: t, Elem: g.Type().(*types.Pointer).Elem()}
}

func (x *Exec) constValue(c *ssa.Const) Value {
	t := c.Type()
	if c.Value == nil {
		return x.zeroValue(t)
	}
	if isBool(t) {
		return BoolConst(constant.BoolVal(c.Value))
	}
	if w, _, ok := intInfo(t); ok {
		v, _ := new(big.Int).SetString(constant.ToInt(c.Value).ExactString(), 10)
		return BVConst(v, w)
	}
	if isString(t) {
		return x.strConst(constant.StringVal(c.Value))
	}
	if isFloat(t) {
		f, _ := constant.Float64Val(c.Value)
		return x.fpConst(f)
	}
	unsupported("constant of type %s", t)
	return nil
}

func (x *Exec) fpConst(f float64) *Term {
	return &Term{S: fmt.Sprintf("((_ to_fp 11 53) RNE %s)", ratString(f)), Sort: SFP64}
}

func ratString(f float64) string {
	r := new(big.Rat).SetFloat64(f)
	if r == nil {
		return "0.0"
	}
	num, den := r.Num(), r.Denom()
	neg := num.Sign() < 0
	s := fmt.Sprintf("(/ %s.0 %s.0)", new(big.Int).Abs(num).String(), den.String())
	if neg {
		s = "(- " + s + ")"
	}
	return s
}

// storeRootIsLocal reports whether a store address is rooted in a local variable of the function
// (an Alloc), so that it cannot change memory that existed when the function was entered.
func storeRootIsLocal(addr ssa.Value) bool {
	for {
		switch a := addr.(type) {
		case *ssa.Alloc:
			return true
		case *ssa.FieldAddr:
			addr = a.X
		case *ssa.IndexAddr:
			if _, ok := a.X.Type().Underlying().(*types.Pointer); ok {
				addr = a.X
			} else {
				return false
			}
		default:
			return false
		}
	}
}
