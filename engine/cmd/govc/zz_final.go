package main

// final Type.field: a field that is written only while its object is under construction (stores
// through a field address of an object allocated in the same function, i.e. a composite literal or
// new(T) followed by assignments). Checked over every function of the module: no other store to the
// field, no whole-struct store over an existing object of the type, and the field's address is used
// for nothing but loads and those stores. Such a field keeps its value across every call and every
// loop, so its heap array is never forgotten. (Writes through reflection or unsafe are not seen:
// assumption, listed in the evidence notes.)

import (
	"go/token"
	"go/types"
	"sort"
	"strings"

	"golang.org/x/tools/go/ssa"
	"golang.org/x/tools/go/ssa/ssautil"
)

type finalInfo struct {
	arrays map[string]bool // heap array prefixes of final fields
	errs   []string
}

var finalByProg = map[*Program]*finalInfo{}

func (x *Exec) finals() *finalInfo {
	if fi, ok := finalByProg[x.P]; ok {
		return fi
	}
	fi := &finalInfo{arrays: map[string]bool{}}
	finalByProg[x.P] = fi
	type decl struct {
		t     types.Type
		field int
		name  string
		pfx   string
	}
	var decls []decl
	var keys []string
	for k := range x.CS.PureIface {
		if strings.HasPrefix(k, "final:") {
			keys = append(keys, k[6:])
		}
	}
	sort.Strings(keys)
	for _, k := range keys {
		i := strings.LastIndex(k, ".")
		if i < 0 {
			fi.errs = append(fi.errs, "final: bad declaration "+k)
			continue
		}
		tn, fn := k[:i], k[i+1:]
		j := strings.LastIndex(tn, ".")
		if j < 0 {
			fi.errs = append(fi.errs, "final: bad declaration "+k)
			continue
		}
		sp := x.P.byPkg[tn[:j]]
		if sp == nil {
			fi.errs = append(fi.errs, "final: unknown package in "+k)
			continue
		}
		t := x.P.LookupType(sp.Pkg, tn[j+1:])
		if t == nil {
			fi.errs = append(fi.errs, "final: unknown type in "+k)
			continue
		}
		st, ok := t.Underlying().(*types.Struct)
		if !ok {
			fi.errs = append(fi.errs, "final: not a struct type in "+k)
			continue
		}
		idx := -1
		for f := 0; f < st.NumFields(); f++ {
			if st.Field(f).Name() == fn {
				idx = f
			}
		}
		if idx < 0 {
			fi.errs = append(fi.errs, "final: no such field in "+k)
			continue
		}
		if _, nested := st.Field(idx).Type().Underlying().(*types.Struct); nested {
			fi.errs = append(fi.errs, "final: struct-typed field not supported in "+k)
			continue
		}
		decls = append(decls, decl{t, idx, fn, fieldPrefix(structKey(t), fn)})
	}
	if len(decls) == 0 {
		return fi
	}
	bad := map[string]string{}
	underConstruction := func(v ssa.Value) bool {
		_, ok := v.(*ssa.Alloc)
		return ok
	}
	for fn := range ssautil.AllFunctions(x.P.Prog) {
		if !x.P.InModule(fn) {
			continue
		}
		for _, b := range fn.Blocks {
			for _, ins := range b.Instrs {
				switch i := ins.(type) {
				case *ssa.Store:
					// whole-struct store over an existing object
					for _, d := range decls {
						if types.Identical(i.Val.Type(), d.t) && !underConstruction(i.Addr) {
							bad[d.pfx] = "whole-struct store in " + funcKey(fn)
						}
					}
				case *ssa.FieldAddr:
					pt, ok := i.X.Type().Underlying().(*types.Pointer)
					if !ok {
						continue
					}
					for _, d := range decls {
						if i.Field != d.field || !types.Identical(pt.Elem(), d.t) {
							continue
						}
						if i.Referrers() == nil {
							continue
						}
						for _, r := range *i.Referrers() {
							switch u := r.(type) {
							case *ssa.DebugRef:
							case *ssa.UnOp:
								if u.Op != token.MUL {
									bad[d.pfx] = "address of the field used in " + funcKey(fn)
								}
							case *ssa.Store:
								if u.Addr != ssa.Value(i) || !underConstruction(i.X) {
									bad[d.pfx] = "store to the field of an existing object in " + funcKey(fn)
								}
							default:
								bad[d.pfx] = "address of the field escapes in " + funcKey(fn)
							}
						}
					}
				}
			}
		}
	}
	for _, d := range decls {
		if why, isBad := bad[d.pfx]; isBad {
			fi.errs = append(fi.errs, "final "+d.pfx+" rejected: "+why)
			continue
		}
		fi.arrays[d.pfx] = true
	}
	return fi
}

// isFinalArray: the named heap array belongs to a field declared (and checked) final.
func (x *Exec) isFinalArray(name string) bool {
	fi := x.finals()
	if len(fi.errs) > 0 {
		unsupported("%s", strings.Join(fi.errs, "; "))
	}
	if len(fi.arrays) == 0 {
		return false
	}
	for pfx := range fi.arrays {
		if name == pfx || strings.HasPrefix(name, pfx+".") {
			return true
		}
	}
	return false
}
