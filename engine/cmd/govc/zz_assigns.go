package main

// Static resolution of a callee's "assigns" clause into heap-array name prefixes, used when a call
// to a contracted function occurs inside a loop that is cut at its header: the loop then forgets
// exactly the arrays the callee may write instead of the whole heap.

import (
	"go/types"
	"strings"

	"golang.org/x/tools/go/ssa"
)

// assignsArrayNames returns the heap-array prefixes a contracted callee may write according to its
// assigns clauses. ok is false when there is no assigns clause or an item cannot be resolved
// statically (the caller then falls back to forgetting the whole heap).
func (x *Exec) assignsArrayNames(fn *ssa.Function, con *FuncContract) (names []string, ok bool) {
	var items []string
	for _, c := range con.Clauses {
		if c.Kind == "assigns" {
			for _, it := range splitTop(c.Text, ',') {
				it = strings.TrimSpace(it)
				if it != "" && it != "nothing" {
					items = append(items, it)
				}
			}
		}
	}
	has := false
	for _, c := range con.Clauses {
		if c.Kind == "assigns" {
			has = true
		}
	}
	if !has {
		return nil, false
	}
	ptypes := map[string]types.Type{}
	for i, p := range fn.Params {
		ptypes[x.contractParamName(fn, con, i)] = p.Type()
		if p.Name() != "" {
			ptypes[p.Name()] = p.Type()
		}
	}
	var pkg *types.Package
	if fn.Pkg != nil {
		pkg = fn.Pkg.Pkg
	}
	for _, it := range items {
		switch {
		case it == "heap" || it == "everything":
			return nil, false
		case strings.HasPrefix(it, "cells(") || strings.HasPrefix(it, "elems(") || strings.HasPrefix(it, "gfall("):
			if pkg == nil && fn.Origin() != nil && fn.Origin().Pkg != nil {
				pkg = fn.Origin().Pkg.Pkg
			}
			ns, _ := x.wholeArrayItem(pkg, it)
			names = append(names, ns...)
		case strings.HasPrefix(it, "reach("):
			// resolved against the arguments of a particular call (zz_reach.go)
			if x.curCall == nil {
				return nil, false
			}
		case strings.HasPrefix(it, "all("):
			i := strings.Index(it, ").")
			if i < 0 || pkg == nil {
				return nil, false
			}
			t := x.P.LookupType(pkg, strings.TrimSpace(it[4:i]))
			if t == nil {
				return nil, false
			}
			names = append(names, fieldPrefix(structKey(t), strings.TrimSpace(it[i+2:])))
		case strings.HasPrefix(it, "val("):
			names = append(names, "BigVal")
		case strings.HasPrefix(it, "gf("):
			parts := splitTop(it[3:len(it)-1], ',')
			if len(parts) != 2 {
				return nil, false
			}
			names = append(names, "GF:"+strings.TrimSpace(parts[1]))
		case strings.HasSuffix(it, "[*]"):
			t, _, ok := staticPathType(ptypes, strings.TrimSuffix(it, "[*]"))
			if !ok {
				return nil, false
			}
			switch u := t.Underlying().(type) {
			case *types.Map:
				names = append(names, mapPrefix(u))
			case *types.Slice:
				if _, isS := u.Elem().Underlying().(*types.Struct); isS {
					names = append(names, x.arraysOfStructType(u.Elem())...)
				} else {
					names = append(names, elemPrefix(u.Elem()))
				}
			default:
				return nil, false
			}
		default:
			t, owner, ok := staticPathType(ptypes, it)
			if !ok || owner == nil {
				return nil, false
			}
			fname := it[strings.LastIndex(it, ".")+1:]
			if _, isS := t.Underlying().(*types.Struct); isS {
				names = append(names, x.arraysOfStructType(t)...)
			} else {
				names = append(names, fieldPrefix(structKey(owner), fname))
			}
		}
	}
	return names, true
}

// staticPathType types a path "p.f.g" of parameter p: the type of the last selection and the struct
// type that owns the last field.
func staticPathType(ptypes map[string]types.Type, path string) (t types.Type, owner types.Type, ok bool) {
	parts := strings.Split(strings.TrimSpace(path), ".")
	cur, found := ptypes[strings.TrimSpace(parts[0])]
	if !found {
		return nil, nil, false
	}
	for _, f := range parts[1:] {
		f = strings.TrimSpace(f)
		base := cur
		if p, isP := base.Underlying().(*types.Pointer); isP {
			base = p.Elem()
		}
		st, isS := base.Underlying().(*types.Struct)
		if !isS {
			return nil, nil, false
		}
		var ft types.Type
		for i := 0; i < st.NumFields(); i++ {
			if st.Field(i).Name() == f {
				ft = st.Field(i).Type()
			}
		}
		if ft == nil {
			return nil, nil, false
		}
		owner = base
		cur = ft
	}
	return cur, owner, true
}
