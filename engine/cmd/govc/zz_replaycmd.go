package main

// govc replay <ID> <replay-file>: re-run the counterexample recorded in a replay file against the
// real code of /repo's working tree (the harness of replay/<ID>/, or the bounded harness for a
// bounded-*.json file). Exit 1 and a VIOLATION line when the real code still violates the property,
// exit 0 when it does not (any more), exit 2 when the file cannot be replayed.

import (
	"encoding/json"
	"fmt"
	"os"
	"path/filepath"
	"strings"
)

func cmdReplay(o *Options, pos []string) int {
	if len(pos) != 2 {
		usage()
	}
	id, path := pos[0], pos[1]
	data, err := os.ReadFile(path)
	if err != nil {
		fmt.Fprintln(os.Stderr, "govc replay:", err)
		return 2
	}
	var rec map[string]any
	if err := json.Unmarshal(data, &rec); err != nil {
		fmt.Fprintln(os.Stderr, "govc replay: not a replay file:", err)
		return 2
	}
	if strings.HasPrefix(filepath.Base(path), "bounded-") {
		res, viol := runBoundedChecks(o, id)
		for _, r := range res {
			fmt.Printf("bounded check %v: %v\n", r["name"], r["status"])
		}
		if viol > 0 {
			return 1
		}
		return 0
	}
	violated, out, cmdline := tryReplay(o, id, rec)
	fmt.Println(cmdline)
	fmt.Println(out)
	if violated {
		fmt.Printf("VIOLATION property=%s replay=%s\n", id, path)
		return 1
	}
	if cmdline == "" {
		fmt.Println("not replayable: " + out)
		return 2
	}
	fmt.Println("the recorded counterexample class does not violate the property on the current tree")
	return 0
}
