package main

// Cheap infeasible-path pruning: equalities and disequalities between a term and bit-vector / integer
// constants learned from branch conditions decide later comparisons of the same term syntactically
// (switch statements on one value compile to chains of such comparisons).

import "strings"

type constFacts struct {
	eq map[string]string          // term -> constant it equals
	ne map[string]map[string]bool // term -> constants it differs from
}

func (f *constFacts) clone() *constFacts {
	if f == nil {
		return nil
	}
	n := &constFacts{eq: make(map[string]string, len(f.eq)), ne: make(map[string]map[string]bool, len(f.ne))}
	for k, v := range f.eq {
		n.eq[k] = v
	}
	for k, v := range f.ne {
		m := make(map[string]bool, len(v))
		for c := range v {
			m[c] = true
		}
		n.ne[k] = m
	}
	return n
}

func isConstLit(s string) bool {
	if strings.HasPrefix(s, "(_ bv") && strings.HasSuffix(s, ")") && !strings.Contains(s[1:], "(") {
		return true
	}
	if s == "" {
		return false
	}
	for _, r := range s {
		if r < '0' || r > '9' {
			return false
		}
	}
	return true
}

// eqAtom recognises (= X const) / (= const X), possibly negated.
func eqAtom(c *Term) (lhs, k string, neg, ok bool) {
	s := c.S
	if strings.HasPrefix(s, "(not ") && strings.HasSuffix(s, ")") {
		neg = true
		s = s[5 : len(s)-1]
	}
	if !strings.HasPrefix(s, "(= ") || !strings.HasSuffix(s, ")") {
		return
	}
	body := s[3 : len(s)-1]
	// split the two arguments at depth 0
	depth := 0
	inBar := false
	split := -1
	for i := 0; i < len(body); i++ {
		ch := body[i]
		if ch == '|' {
			inBar = !inBar
		}
		if inBar {
			continue
		}
		if ch == '(' {
			depth++
		} else if ch == ')' {
			depth--
		} else if ch == ' ' && depth == 0 {
			if split >= 0 {
				return "", "", false, false // more than two arguments
			}
			split = i
		}
	}
	if split < 0 {
		return
	}
	a, b := body[:split], body[split+1:]
	switch {
	case isConstLit(b) && !isConstLit(a):
		return a, b, neg, true
	case isConstLit(a) && !isConstLit(b):
		return b, a, neg, true
	}
	return
}

func (s *State) learn(c *Term) {
	lhs, k, neg, ok := eqAtom(c)
	if !ok {
		return
	}
	if s.facts == nil {
		s.facts = &constFacts{eq: map[string]string{}, ne: map[string]map[string]bool{}}
	}
	if neg {
		m := s.facts.ne[lhs]
		if m == nil {
			m = map[string]bool{}
			s.facts.ne[lhs] = m
		}
		m[k] = true
		return
	}
	s.facts.eq[lhs] = k
}

// refine decides a branch condition from the learned facts when possible.
func (s *State) refine(c *Term) *Term {
	if s.facts == nil || c.IsConst {
		return c
	}
	lhs, k, neg, ok := eqAtom(c)
	if !ok {
		return c
	}
	if v, ok := s.facts.eq[lhs]; ok {
		return BoolConst((v == k) != neg)
	}
	if s.facts.ne[lhs][k] {
		return BoolConst(neg)
	}
	return c
}
