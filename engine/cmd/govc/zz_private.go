package main

// Private objects. An object allocated by the function under verification (ssa.Alloc with Heap ==
// true: &T{...}, new(T)) cannot be reached by any callee, goroutine or callback until a reference to
// it (or into it) has left the function's hands. Until then a whole-heap havoc (an uncontracted
// call, a callback, a go statement) leaves what is known about its fields intact, exactly as for
// non-escaping locals (State.stack). A reference escapes - conservatively, by allocation root - when
// it (or a value containing it) is
//   - stored anywhere except into a non-escaping local variable,
//   - passed as (part of) an argument, receiver or captured variable to a call that is not inlined,
//     to a go or defer statement, to append or copy, or bound into a closure,
//   - sent on a channel, used as key or value of a map update, or returned by the function under
//     verification.
// Values loaded from memory are never private (they come from somewhere else).

import (
	"golang.org/x/tools/go/ssa"
)

func (s *State) markPrivate(root *Term) {
	if s.priv == nil {
		s.priv = map[string]bool{}
	}
	s.priv[root.S] = true
	s.markStack(root)
}

// escapeRef ends the privacy of the allocation root that ref belongs to.
func (x *Exec) escapeRef(st *State, ref *Term) {
	if ref == nil || ref.IsConst || len(st.priv) == 0 {
		return
	}
	root, ok := x.refRoot[ref.S]
	if !ok || !st.priv[root] {
		return
	}
	delete(st.priv, root)
	for k := range st.stack {
		if x.refRoot[k] == root {
			delete(st.stack, k)
		}
	}
}

// escapeValue ends the privacy of every private object a value refers to.
func (x *Exec) escapeValue(st *State, v Value) {
	if len(st.priv) == 0 || v == nil {
		return
	}
	switch vv := v.(type) {
	case *PtrV:
		x.escapeRef(st, vv.Ref)
		if vv.Inner != nil {
			x.escapeValue(st, vv.Inner)
		}
	case *SliceV:
		x.escapeRef(st, vv.Base)
	case *IfaceV:
		x.escapeRef(st, vv.Ref)
	case *StructV:
		for _, f := range vv.Fields {
			x.escapeValue(st, f)
		}
	case *TupleV:
		for _, e := range vv.Elems {
			x.escapeValue(st, e)
		}
	case *FuncV:
		for _, f := range vv.Free {
			x.escapeValue(st, f)
		}
	case *Term:
		if vv.Sort.K == KInt {
			x.escapeRef(st, vv)
		}
	}
}

func (x *Exec) escapeArgs(st *State, args []Value) {
	for _, a := range args {
		x.escapeValue(st, a)
	}
}

// storeIntoNonEscapingLocal: the address is rooted in an ssa.Alloc that does not escape.
func storeIntoNonEscapingLocal(addr ssa.Value) bool {
	for {
		switch a := addr.(type) {
		case *ssa.Alloc:
			return !a.Heap
		case *ssa.FieldAddr:
			addr = a.X
		case *ssa.IndexAddr:
			addr = a.X
		default:
			return false
		}
	}
}

// Loop invariant "private(x)": the object the loop-carried variable x points to is private to the
// function (no reference to it has left the function's hands). It is checked where the loop is
// entered and at every back edge by looking at the escape analysis of that path; at the loop head
// the fresh value of x is marked private, so that what is known about the object survives calls of
// unknown functions inside the body.
func privateInvVar(e Expr) (string, bool) {
	c, ok := e.(*ECall)
	if !ok || len(c.Args) != 1 {
		return "", false
	}
	f, ok := c.Fun.(*EIdent)
	if !ok || f.Name != "private" {
		return "", false
	}
	id, ok := c.Args[0].(*EIdent)
	if !ok {
		return "", false
	}
	return id.Name, true
}

// isPrivateNow: the pointer value denotes a private object in st.
func (x *Exec) isPrivateNow(st *State, v Value) bool {
	p, ok := v.(*PtrV)
	if !ok || p.Ref == nil {
		return false
	}
	if st.priv[p.Ref.S] {
		return true
	}
	if root, ok := x.refRoot[p.Ref.S]; ok && st.priv[root] {
		return true
	}
	return false
}

// assumePrivate marks the object behind a (havocked, loop-carried) pointer as private.
func (x *Exec) assumePrivate(st *State, v Value) {
	p, ok := v.(*PtrV)
	if !ok || p.Ref == nil || p.Ref.IsConst {
		return
	}
	x.setRoot(p.Ref, p.Ref.S)
	st.markPrivate(p.Ref)
}
