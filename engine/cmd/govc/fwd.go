package main

import (
	"fmt"
	"os"
	"strings"
)

var dbgSel = os.Getenv("GOVC_DEBUG_SEL")

// Store-to-load forwarding on reference-indexed heap arrays: a Go-side cache of the last value
// stored at syntactically known indices, valid only for the exact array term it was built for.
// It keeps solver terms small (no select-over-store chains for freshly allocated objects) and lets
// reads of memory that existed at entry bypass stores to objects allocated during the run.

const (
	refFresh int8 = 1 // an object allocated on this path, or a sub-object of one: value > refK*alloc0
	refOld   int8 = 2 // assumed to exist at entry (<= refK*alloc0), or a sub-object of such a reference
)

func (s *State) setClass(t *Term, c int8) {
	if s.refClass == nil {
		s.refClass = map[string]int8{}
	}
	s.refClass[t.S] = c
}

func (s *State) class(t *Term) int8 {
	if t.IsConst {
		if t.BVal != nil && t.BVal.Sign() <= 0 {
			return refOld // nil and the (negative) addresses of globals
		}
		return 0
	}
	return s.refClass[t.S]
}

// subRefSt is subRef plus propagation of the base's classification (see DESIGN section 5: a
// sub-object of a fresh object can never coincide with an object that existed at entry or with a
// sub-object of one, because refs are refK-ary digit strings over disjoint roots).
func (x *Exec) subRefSt(st *State, base *Term, owner, name string) *Term {
	r := x.subRef(base, owner, name)
	if c := st.class(base); c != 0 {
		st.setClass(r, c)
	}
	if st.stack[base.S] {
		st.markStack(r)
	}
	if rt, ok := x.refRoot[base.S]; ok {
		x.setRoot(r, rt)
	}
	return r
}

// setRoot records the allocation root of a reference term (a property of the term itself: term
// names are unique within one Exec). Two references with different allocation roots are distinct
// (refs are refK-ary digit strings over pairwise distinct roots; see newRef / subRef).
func (x *Exec) setRoot(t *Term, root string) {
	if x.refRoot == nil {
		x.refRoot = map[string]string{}
	}
	x.refRoot[t.S] = root
}

// markStack records a reference into a non-escaping local variable (ssa.Alloc with Heap == false):
// no callee can reach it, so a whole-heap havoc leaves what is cached about it intact.
func (s *State) markStack(t *Term) {
	if s.stack == nil {
		s.stack = map[string]bool{}
	}
	s.stack[t.S] = true
}

// havocKeepStack replaces the cache of a havocked array by the entries at non-escaping locals.
func (x *Exec) havocKeepStack(st *State, name string, oldArr, newArr *Term) {
	old := st.fwd[name]
	if old == nil || old.arr != oldArr.S {
		delete(st.fwd, name)
		return
	}
	c := &fwdCache{arr: newArr.S, ent: map[string]*Term{}}
	for k, v := range old.ent {
		if st.stack[k] {
			c.ent[k] = v
		}
	}
	if len(c.ent) == 0 {
		delete(st.fwd, name)
		return
	}
	st.fwd[name] = c
}

type fwdCache struct {
	arr      string
	ent      map[string]*Term
	base     *Term // the array before the cached stores
	allFresh bool  // every store since base was at a refFresh index
	// base2/minNum2: the array as it was when this run of stores began, all of which went to objects
	// (or parts of objects) allocated during the run with allocation number >= minNum2. A reference
	// known to denote memory that existed before allocation minNum2 reads from base2.
	base2   *Term
	minNum2 int
}

func (x *Exec) heapSelect(st *State, name string, arr, idx *Term) *Term {
	if dbgSel != "" && strings.Contains(name, dbgSel) {
		c := st.fwd[name]
		if c == nil {
			fmt.Fprintf(os.Stderr, "SEL %s arr=%s nocache idx=%.80s class=%d\n", name, arr.S, idx.S, st.class(idx))
		} else {
			fmt.Fprintf(os.Stderr, "SEL %s arr=%s cache.arr=%s allFresh=%v base=%v idx=%.80s class=%d\n", name, arr.S, c.arr, c.allFresh, c.base != nil, idx.S, st.class(idx))
		}
	}
	if c := st.fwd[name]; c != nil && c.arr == arr.S {
		if v, ok := c.ent[idx.S]; ok {
			return v
		}
		if c.allFresh && c.base != nil && (st.class(idx) == refOld || st.readsOld && st.class(idx) != refFresh) {
			return Select(c.base, idx)
		}
		// a reference known to denote memory that existed before the n-th allocation cannot be (or
		// lie inside) an object allocated later
		if c.base2 != nil && c.minNum2 > 0 {
			if ub, ok := x.refUB[idx.S]; ok && ub < c.minNum2 {
				return Select(c.base2, idx)
			}
		}
	}
	sel := Select(arr, idx)
	if st.stack[idx.S] && arr.Sort.K == KArray && arr.Sort.Idx.K == KInt {
		// a value loaded from a non-escaping local or a private object: remember it, so that it
		// survives a callee's havoc like a stored value does (no callee can reach that memory)
		if st.fwd == nil {
			st.fwd = map[string]*fwdCache{}
		}
		if c := st.fwd[name]; c != nil && c.arr == arr.S {
			nc := *c
			nc.ent = make(map[string]*Term, len(c.ent)+1)
			for k, v := range c.ent {
				nc.ent[k] = v
			}
			nc.ent[idx.S] = sel
			st.fwd[name] = &nc
		} else {
			st.fwd[name] = &fwdCache{arr: arr.S, ent: map[string]*Term{idx.S: sel}}
		}
	}
	return sel
}

// heapStoreFwd stores v at idx in the named array (which must already exist in st.heap).
func (x *Exec) heapStoreFwd(st *State, name string, idx, v *Term) {
	arr := st.heap[name]
	na := x.nameTerm(st, Store(arr, idx, v), "h")
	old := st.fwd[name]
	fresh := st.class(idx) == refFresh
	c := &fwdCache{arr: na.S, ent: map[string]*Term{}, base: arr, allFresh: fresh}
	if rn := x.rootNumOf(idx.S); fresh && rn > 0 {
		c.base2, c.minNum2 = arr, rn
		if old != nil && old.arr == arr.S && old.base2 != nil {
			c.base2 = old.base2
			if old.minNum2 < rn {
				c.minNum2 = old.minNum2
			}
		}
	}
	if old != nil && old.arr == arr.S {
		c.base = old.base
		c.allFresh = old.allFresh && fresh
		ci := st.class(idx)
		for k, val := range old.ent {
			if k == idx.S {
				continue
			}
			ck := st.refClass[k]
			// keep only entries at references provably distinct from idx: two different fresh roots,
			// or one reference into fresh memory and one into memory that existed at entry
			if (fresh && ck == refFresh && isAllocRoot(st, k) && isAllocRoot(st, idx.S)) ||
				(ci != 0 && ck != 0 && ci != ck) || x.distinctRoots(k, idx.S) {
				c.ent[k] = val
			}
		}
	}
	c.ent[idx.S] = v
	if st.fwd == nil {
		st.fwd = map[string]*fwdCache{}
	}
	st.fwd[name] = c
	st.heap[name] = na
}

// rootNumOf is the allocation number k of the root (refK*(alloc0+k)) a fresh reference belongs to; 0 if unknown.
func (x *Exec) rootNumOf(ref string) int {
	if rt, ok := x.refRoot[ref]; ok {
		return x.rootNum[rt]
	}
	return 0
}

// noteUB records that a reference term denotes memory that existed before allocation number n+1
// (it is assumed <= refK*(alloc0+n)).
func (x *Exec) noteUB(t *Term, n int) {
	if t == nil || t.IsConst {
		return
	}
	if x.refUB == nil {
		x.refUB = map[string]int{}
	}
	if old, ok := x.refUB[t.S]; !ok || n < old {
		x.refUB[t.S] = n
	}
}

func (x *Exec) distinctRoots(a, b string) bool {
	ra, oka := x.refRoot[a]
	rb, okb := x.refRoot[b]
	return oka && okb && ra != rb
}

func isAllocRoot(st *State, s string) bool {
	for _, a := range st.allocs {
		if a.S == s {
			return true
		}
	}
	return false
}
