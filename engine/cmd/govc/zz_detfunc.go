package main

// Deterministic function values ("detfunc Field ..."): a function-typed value read from a field /
// variable of that name is assumed to be pure AND deterministic - its results are an uninterpreted
// function of the function value itself, of its arguments (slices by identity: base, offset, length,
// capacity) and of the heap epoch. The assumption is listed in the evidence (trusted base).
// In specifications `fnapp(f, i, args...)` denotes result i of calling the function value f.

import (
	"fmt"
	"go/types"
)

func (x *Exec) isDetFuncName(src string) bool {
	return src != "" && x.CS.PureIface["detfunc:"+src]
}

// detFuncResults builds all results of calling the symbolic function value fv with args.
func (x *Exec) detFuncResults(st *State, fv *Term, sig *types.Signature, args []Value) Value {
	ins := []*Term{x.epochTerm(st), fv}
	for j := 0; j < sig.Params().Len(); j++ {
		ins = append(ins, x.flatten(sig.Params().At(j).Type(), args[j])...)
	}
	one := func(i int) Value {
		rt := sig.Results().At(i).Type()
		var ts []*Term
		for _, cp := range x.compsOf(rt) {
			ts = append(ts, x.D.Fun(smtName(fmt.Sprintf("fnval:%s#%d%s", types.TypeString(sig, nil), i, cp.suffix)), cp.sort, ins...))
		}
		v, _ := x.unflatten(rt, ts)
		x.assumeTypeInv(st, rt, v)
		return v
	}
	switch sig.Results().Len() {
	case 0:
		return nil
	case 1:
		return one(0)
	}
	tv := &TupleV{}
	for i := 0; i < sig.Results().Len(); i++ {
		tv.Elems = append(tv.Elems, one(i))
	}
	return tv
}

// specFnApp evaluates fnapp(f, i, args...).
func (x *Exec) specFnApp(env *SpecEnv, f TV, idx int, args []TV) TV {
	sig, ok := f.T.Underlying().(*types.Signature)
	if !ok {
		specFail("fnapp: first argument is not a function value (%v)", f.T)
	}
	fv, ok := f.V.(*FuncV)
	if !ok {
		specFail("fnapp: first argument is %T, not a function value", f.V)
	}
	if len(args) != sig.Params().Len() || idx < 0 || idx >= sig.Results().Len() {
		specFail("fnapp: %s takes %d arguments and has %d results", types.TypeString(sig, nil), sig.Params().Len(), sig.Results().Len())
	}
	var vals []Value
	for j := range args {
		vals = append(vals, x.coerceTo(args[j], sig.Params().At(j).Type()).V)
	}
	res := x.detFuncResults(env.state(), x.funcTerm(fv), sig, vals)
	if tup, ok := res.(*TupleV); ok {
		return TV{tup.Elems[idx], sig.Results().At(idx).Type()}
	}
	return TV{res, sig.Results().At(idx).Type()}
}
