package main

// encoding/binary.LittleEndian: the byte-order mirror of the big-endian intrinsics. Both readers
// and writers index their argument (b[n-1] first), so "len(b) >= n" is a safety obligation at the
// call site; the writers touch exactly those n bytes.

import (
	"go/types"

	"golang.org/x/tools/go/ssa"
)

func init() {
	for _, n := range []int{2, 4, 8} {
		name := map[int]string{2: "16", 4: "32", 8: "64"}[n]
		intrinsics["encoding/binary.(littleEndian).Uint"+name] = leUint(n)
		pureIntrinsics["encoding/binary.(littleEndian).Uint"+name] = true
		intrinsics["encoding/binary.(littleEndian).PutUint"+name] = lePut(n)
	}
}

func leUint(n int) intrinsicFn {
	return func(x *Exec, fr *Frame, st *State, c *ssa.CallCommon, args []Value) Value {
		s := args[len(args)-1].(*SliceV)
		need := BVCmp("bvuge", s.Len, BVConstU(uint64(n), 64))
		x.emitSafe(fr, st, "index", need, c.Pos())
		st.Assume(need)
		bt := types.Typ[types.Uint8]
		var r *Term
		for i := 0; i < n; i++ {
			b := x.loadElem(st, s.Base, BVBin("bvadd", s.Off, BVConstU(uint64(i), 64)), bt).(*Term)
			if r == nil {
				r = b
			} else {
				r = Concat(b, r) // later bytes are more significant
			}
		}
		return x.nameTerm(st, r, "le")
	}
}

func lePut(n int) intrinsicFn {
	return func(x *Exec, fr *Frame, st *State, c *ssa.CallCommon, args []Value) Value {
		s := args[len(args)-2].(*SliceV)
		v := args[len(args)-1].(*Term)
		need := BVCmp("bvuge", s.Len, BVConstU(uint64(n), 64))
		x.emitSafe(fr, st, "index", need, c.Pos())
		st.Assume(need)
		bt := types.Typ[types.Uint8]
		for i := 0; i < n; i++ {
			lo := 8 * i
			x.storeElem(st, s.Base, BVBin("bvadd", s.Off, BVConstU(uint64(i), 64)), bt, Extract(lo+7, lo, v))
		}
		return nil
	}
}
