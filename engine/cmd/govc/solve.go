package main

// SMT script generation and solver racing.

import (
	"bytes"
	"context"
	"fmt"
	"os"
	"os/exec"
	"path/filepath"
	"sort"
	"strings"
	"sync"
	"time"
)

type SolveResult struct {
	Status  string // unsat sat unknown timeout error trivial
	Backend string
	Secs    float64
	Model   map[string]string
	Raw     string
	File    string
}

type Solver struct {
	WorkDir   string
	Seed      int
	QuickSecs int
	FullSecs  int
	mu        sync.Mutex
	n         int
	Stats     map[string]int
	Time      map[string]float64
}

func NewSolver(work string, seed int, quick, full int) *Solver {
	os.MkdirAll(work, 0o755)
	return &Solver{WorkDir: work, Seed: seed, QuickSecs: quick, FullSecs: full, Stats: map[string]int{}, Time: map[string]float64{}}
}

func (x *Exec) script(o *Obl, inputs []ModelVar, skipReveal bool) string {
	// Select the assertions that matter: every non-definitional one, and the definitions
	// (= fresh-symbol term) whose symbol is (transitively) used. Dropping an unused definition of a
	// fresh symbol keeps the query equisatisfiable and much smaller.
	used := map[string]bool{}
	if !o.ExpectSat {
		symbolsOf(o.Goal.S, used)
	}
	for _, a := range o.Axioms {
		symbolsOf(a.S, used)
	}
	keep := make([]bool, len(o.PC))
	for i, p := range o.PC {
		if skipReveal && p.Reveal {
			continue
		}
		if p.Def == "" {
			keep[i] = true
			symbolsOf(p.S, used)
		}
	}
	for i := len(o.PC) - 1; i >= 0; i-- {
		p := o.PC[i]
		if p.Def != "" && used[p.Def] {
			keep[i] = true
			symbolsOf(p.S, used)
		}
	}
	var getv []string
	for _, in := range inputs {
		syms := map[string]bool{}
		symbolsOf(in.Term, syms)
		ok := true
		for sname := range syms {
			if !used[sname] && o.D != nil && o.D.declared(sname) {
				ok = false
				break
			}
		}
		if ok {
			getv = append(getv, in.Term)
		}
	}
	// skolem-guided instantiation (zz_skolem.go)
	goalS := ""
	var sks []sexprBinder
	var instances []string
	if !o.ExpectSat {
		goalS, sks = skolemGoal(o.Goal.S, 0)
		if len(sks) > 0 {
			var asserts []string
			for _, a := range o.Axioms {
				asserts = append(asserts, a.S)
			}
			for i, p := range o.PC {
				if keep[i] {
					asserts = append(asserts, p.S)
				}
			}
			var keys []sexprBinder
			if o.D != nil {
				all := o.Goal.S + strings.Join(asserts, " ")
				for name, srt := range o.D.consts {
					if strings.HasPrefix(name, "|next.key!") && strings.Contains(all, name) {
						keys = append(keys, sexprBinder{name, srt.String()})
					}
				}
				sort.Slice(keys, func(i, j int) bool { return keys[i].name < keys[j].name })
			}
			instances = skolemInstances(asserts, sks, keys)
		}
	}
	var b strings.Builder
	b.WriteString("(set-option :produce-models true)\n(set-logic ALL)\n")
	if o.D != nil {
		b.WriteString(o.D.TextFor(used))
	} else {
		b.WriteString(o.Decls)
	}
	for _, sk := range sks {
		fmt.Fprintf(&b, "(declare-const %s %s)\n", sk.name, sk.sort)
	}
	for _, a := range o.Axioms {
		if strings.HasPrefix(a.S, "(forall ((|cd?a| ") {
			// finite-set axioms (zz_card.go): only where a length of that key sort occurs, and never
			// in a cover query (they can only remove models; a cover must stay decidable)
			if o.ExpectSat {
				continue
			}
			i := strings.Index(a.S, "(|card:")
			if i < 0 {
				continue
			}
			j := strings.Index(a.S[i+2:], "|")
			if j < 0 {
				continue
			}
			fname := a.S[i+1 : i+2+j+1] // the quoted symbol |card:(...)|
			occurs := strings.Contains(o.Goal.S, fname)
			for k, p := range o.PC {
				if occurs {
					break
				}
				if keep[k] && strings.Contains(p.S, fname) {
					occurs = true
				}
			}
			if !occurs {
				continue
			}
		}
		fmt.Fprintf(&b, "(assert %s)\n", a.S)
	}
	emitted := map[string]bool{}
	for i, p := range o.PC {
		if keep[i] && !emitted[p.S] {
			emitted[p.S] = true
			fmt.Fprintf(&b, "(assert %s)\n", p.S)
		}
	}
	for _, in := range instances {
		if !emitted[in] {
			emitted[in] = true
			fmt.Fprintf(&b, "(assert %s)\n", in)
		}
	}
	if !o.ExpectSat {
		fmt.Fprintf(&b, "(assert (not %s))\n", goalS)
	}
	b.WriteString("(check-sat)\n")
	if len(getv) > 0 {
		b.WriteString("(get-value (")
		b.WriteString(strings.Join(getv, " "))
		b.WriteString("))\n")
	}
	return b.String()
}

// finalize attaches declarations and global axioms to the obligations of the last run.
func (x *Exec) finalize(obls []*Obl) {
	decls := x.D.Text()
	var ax []*Term
	// distinct string constants with their lengths
	if len(x.strOrder) > 0 {
		var names []string
		for _, s := range x.strOrder {
			t := x.strConsts[s]
			names = append(names, t.S)
			ax = append(ax, &Term{S: fmt.Sprintf("(= (strlen %s) (_ bv%d 64))", t.S, len(s)), Sort: SBool})
		}
		if len(names) > 1 {
			ax = append(ax, &Term{S: "(distinct " + strings.Join(names, " ") + ")", Sort: SBool})
		}
		x.D.Fun("strlen", SBV64, Sym("x", SStr))
		decls = x.D.Text()
	}
	ax = append(ax, x.axioms...)
	if x.needElemAxiom {
		// an element of a backing array that existed at entry existed at entry
		x.D.Fun("elemref", SInt, Sym("b", SInt), Sym("i", SBV64))
		decls = x.D.Text()
		ax = append(ax, &Term{S: fmt.Sprintf("(forall ((|ax?b| Int) (|ax?i| (_ BitVec 64))) (! (=> (<= |ax?b| (* %d |alloc0|)) (<= (elemref |ax?b| |ax?i|) (* %d |alloc0|))) :pattern ((elemref |ax?b| |ax?i|))))", refK, refK), Sort: SBool})
	}
	if _, ok := x.D.funs["seq_of_str"]; ok {
		// []byte(s) determines s: string([]byte(s)) == s
		x.D.Fun("str_of_seq", SStr, Sym("q", SSeq))
		x.D.Fun("seq_of_str", SSeq, Sym("s", SStr))
		decls = x.D.Text()
		ax = append(ax, &Term{S: "(forall ((|ax?s| GoStr)) (! (= (str_of_seq (seq_of_str |ax?s|)) |ax?s|) :pattern ((seq_of_str |ax?s|))))", Sort: SBool})
	}
	// finite-set facts about map lengths (card of a key set), as axioms over the set so that they also
	// apply to lengths that appear when a quantified fact is instantiated (zz_card.go)
	ax = append(ax, x.cardAxioms()...)
	for _, o := range obls {
		o.Decls = decls
		o.D = x.D
		o.Axioms = ax
		o.Inputs = x.inputs
	}
}

type solverSpec struct {
	name string
	args func(file string, secs int, seed int) []string
}

var solverSpecs = []solverSpec{
	{"z3-4.8.12", func(f string, s, seed int) []string {
		return []string{"/usr/bin/z3", "-smt2", fmt.Sprintf("-T:%d", s), fmt.Sprintf("smt.random_seed=%d", seed), f}
	}},
	{"z3-5.1.0", func(f string, s, seed int) []string {
		return []string{"z3-new", "-smt2", fmt.Sprintf("-T:%d", s), fmt.Sprintf("smt.random_seed=%d", seed), f}
	}},
	{"cvc5-1.0", func(f string, s, seed int) []string {
		return []string{"cvc5", "--lang", "smt2", fmt.Sprintf("--tlimit=%d", s*1000), "--produce-models", fmt.Sprintf("--seed=%d", seed), f}
	}},
	// E-matching only (no model-based instantiation): decides quantifier-heavy goals the default
	// configuration loses itself in; with quantifiers present it answers unsat or unknown, never sat
	{"z3-5.1.0-ematch", func(f string, s, seed int) []string {
		return []string{"z3-new", "-smt2", fmt.Sprintf("-T:%d", s), fmt.Sprintf("smt.random_seed=%d", seed), "smt.mbqi=false", f}
	}},
	{"z3-5.1.0-ematch-eager", func(f string, s, seed int) []string {
		return []string{"z3-new", "-smt2", fmt.Sprintf("-T:%d", s), fmt.Sprintf("smt.random_seed=%d", seed), "smt.mbqi=false", "smt.qi.eager_threshold=50", "smt.relevancy=0", f}
	}},
}

// proofOnly: configurations whose "sat" is not used (only their refutations count)
func proofOnly(name string) bool { return strings.Contains(name, "-ematch") }

func runSolver(ctx context.Context, sp solverSpec, file string, secs, seed int) (status, raw string, dur float64) {
	args := sp.args(file, secs, seed)
	cctx, cancel := context.WithTimeout(ctx, time.Duration(secs+2)*time.Second)
	defer cancel()
	cmd := exec.CommandContext(cctx, args[0], args[1:]...)
	var out bytes.Buffer
	cmd.Stdout = &out
	cmd.Stderr = &out
	t0 := time.Now()
	_ = cmd.Run()
	dur = time.Since(t0).Seconds()
	raw = out.String()
	first := strings.TrimSpace(strings.SplitN(raw, "\n", 2)[0])
	switch first {
	case "unsat", "sat", "unknown":
		status = first
	case "timeout":
		status = "timeout"
	default:
		if cctx.Err() != nil {
			status = "timeout"
		} else if strings.Contains(first, "timeout") || strings.Contains(raw, "interrupted by timeout") {
			status = "timeout"
		} else {
			status = "error"
		}
	}
	return
}

func parseModel(raw string) map[string]string {
	// raw after first line: ((name value) (name value) ...)
	i := strings.Index(raw, "\n")
	if i < 0 {
		return nil
	}
	s := strings.TrimSpace(raw[i+1:])
	if !strings.HasPrefix(s, "((") {
		return nil
	}
	m := map[string]string{}
	// tokenise s-expression pairs at depth 1
	depth := 0
	start := -1
	for j := 0; j < len(s); j++ {
		switch s[j] {
		case '|':
			k := strings.IndexByte(s[j+1:], '|')
			if k < 0 {
				return m
			}
			j += k + 1
		case '(':
			depth++
			if depth == 2 {
				start = j
			}
		case ')':
			if depth == 2 && start >= 0 {
				pair := s[start+1 : j]
				// split name and value: name may be quoted
				var name, val string
				if strings.HasPrefix(pair, "|") {
					e := strings.IndexByte(pair[1:], '|')
					name = pair[:e+2]
					val = strings.TrimSpace(pair[e+2:])
				} else if strings.HasPrefix(pair, "(") {
					// compound term as name: find matching paren
					d := 0
					for k := 0; k < len(pair); k++ {
						if pair[k] == '(' {
							d++
						} else if pair[k] == ')' {
							d--
							if d == 0 {
								name = pair[:k+1]
								val = strings.TrimSpace(pair[k+1:])
								break
							}
						}
					}
				} else {
					f := strings.SplitN(pair, " ", 2)
					name = f[0]
					if len(f) > 1 {
						val = strings.TrimSpace(f[1])
					}
				}
				m[name] = val
				start = -1
			}
			depth--
		}
	}
	return m
}

// SolveLite tries to refute a weakened query (some hypotheses left out) within the quick limit;
// nil when it is not refuted.
func (s *Solver) SolveLite(name string, script string) *SolveResult {
	s.mu.Lock()
	s.n++
	id := s.n
	s.mu.Unlock()
	file := filepath.Join(s.WorkDir, fmt.Sprintf("q%05d-lite.smt2", id))
	os.WriteFile(file, []byte("; "+name+" (without opaque definitions)\n"+script), 0o644)
	ctx, cancel := context.WithCancel(context.Background())
	defer cancel()
	type res struct {
		st, raw, name string
		d             float64
	}
	specs := []solverSpec{solverSpecs[0], solverSpecs[1]}
	ch := make(chan res, len(specs))
	for _, sp := range specs {
		sp := sp
		go func() {
			st, raw, d := runSolver(ctx, sp, file, s.QuickSecs, s.Seed)
			ch <- res{st, raw, sp.name, d}
		}()
	}
	for range specs {
		r := <-ch
		s.mu.Lock()
		s.Time[r.name] += r.d
		s.mu.Unlock()
		if r.st == "unsat" {
			s.mu.Lock()
			s.Stats[r.name+":unsat"]++
			s.mu.Unlock()
			return &SolveResult{Status: "unsat", Backend: r.name, Secs: r.d, Raw: r.raw, File: file}
		}
	}
	return nil
}

// Solve decides one obligation instance.
func (s *Solver) Solve(name string, script string, expectSat bool) *SolveResult {
	s.mu.Lock()
	s.n++
	id := s.n
	s.mu.Unlock()
	file := filepath.Join(s.WorkDir, fmt.Sprintf("q%05d.smt2", id))
	os.WriteFile(file, []byte("; "+name+"\n"+script), 0o644)
	record := func(r *SolveResult) *SolveResult {
		s.mu.Lock()
		s.Stats[r.Backend+":"+r.Status]++
		s.Time[r.Backend] += r.Secs
		s.mu.Unlock()
		r.File = file
		return r
	}
	ctx := context.Background()
	// stage 1: z3 4.8.12 with the short limit
	st, raw, d := runSolver(ctx, solverSpecs[0], file, s.QuickSecs, s.Seed)
	if st == "unsat" || st == "sat" {
		r := &SolveResult{Status: st, Backend: solverSpecs[0].name, Secs: d, Raw: raw}
		if st == "sat" {
			r.Model = parseModel(raw)
		}
		return record(r)
	}
	s.mu.Lock()
	s.Time[solverSpecs[0].name] += d
	s.mu.Unlock()
	// stage 2: race all three with the full limit
	type res struct {
		st, raw string
		d       float64
		name    string
	}
	cctx, cancel := context.WithCancel(ctx)
	defer cancel()
	full := s.FullSecs
	if expectSat && full > 6 {
		// a reachability cover is a vacuity guard: "not refuted" is accepted, so a long search for a
		// model of quantified hypotheses buys nothing
		full = 6
	}
	ch := make(chan res, len(solverSpecs))
	for _, sp := range solverSpecs {
		sp := sp
		go func() {
			st, raw, d := runSolver(cctx, sp, file, full, s.Seed)
			ch <- res{st, raw, d, sp.name}
		}()
	}
	var last res
	var all []string
	for i := 0; i < len(solverSpecs); i++ {
		r := <-ch
		if r.st == "sat" && proofOnly(r.name) {
			r.st = "unknown"
		}
		all = append(all, fmt.Sprintf("[%s] %s (%.2fs)", r.name, r.st, r.d))
		if r.st == "unsat" || r.st == "sat" {
			cancel()
			out := &SolveResult{Status: r.st, Backend: r.name, Secs: r.d, Raw: r.raw}
			if r.st == "sat" {
				out.Model = parseModel(r.raw)
			}
			return record(out)
		}
		last = r
	}
	status := "unknown"
	if strings.Count(strings.Join(all, " "), "timeout") == len(solverSpecs) {
		status = "timeout"
	}
	return record(&SolveResult{Status: status, Backend: "all", Secs: last.d, Raw: strings.Join(all, "\n") + "\n" + last.raw})
}

// ---------- aggregate ----------

type OblResult struct {
	Name      string   `json:"name"`
	Kind      string   `json:"kind"`
	Func      string   `json:"func"`
	Instances int      `json:"instances"`
	Status    string   `json:"status"` // discharged failed undecided vacuous
	Backend   string   `json:"backend"`
	Secs      float64  `json:"secs"`
	SMTBytes  int      `json:"smt_bytes"`
	Detail    string   `json:"detail,omitempty"`
	Model     map[string]string `json:"model,omitempty"`
	Where     string   `json:"where,omitempty"`
	File      string   `json:"file,omitempty"`
	Trace     []string `json:"-"`
}

func (s *Solver) DischargeAll(x *Exec, obls []*Obl, par int) []*OblResult {
	type job struct {
		o      *Obl
		script string
		lite   string
	}
	byName := map[string][]*Obl{}
	var order []string
	for _, o := range obls {
		if _, ok := byName[o.Name]; !ok {
			order = append(order, o.Name)
		}
		byName[o.Name] = append(byName[o.Name], o)
	}
	results := map[*Obl]*SolveResult{}
	coverSat := map[string]bool{}
	var mu sync.Mutex
	jobs := make(chan job)
	var wg sync.WaitGroup
	for i := 0; i < par; i++ {
		wg.Add(1)
		go func() {
			defer wg.Done()
			for j := range jobs {
				if j.o.ExpectSat {
					// a cover needs one satisfiable instance only
					mu.Lock()
					done := coverSat[j.o.Name]
					mu.Unlock()
					if done {
						mu.Lock()
						results[j.o] = &SolveResult{Status: "skipped", Backend: "-"}
						mu.Unlock()
						continue
					}
				}
				var r *SolveResult
				if j.lite != "" {
					// first attempt without the definitions of opaque spec functions (fewer hypotheses:
					// a refutation stands; anything else is retried with them)
					r = s.SolveLite(j.o.Name, j.lite)
				}
				if r == nil {
					r = s.Solve(j.o.Name, j.script, j.o.ExpectSat)
				}
				mu.Lock()
				results[j.o] = r
				if j.o.ExpectSat && r.Status == "sat" {
					coverSat[j.o.Name] = true
				}
				mu.Unlock()
			}
		}()
	}
	sizes := map[*Obl]int{}
	for _, o := range obls {
		if !o.ExpectSat && o.Goal.IsConst && o.Goal.BoolVal {
			mu.Lock()
			results[o] = &SolveResult{Status: "unsat", Backend: "syntactic"}
			mu.Unlock()
			continue
		}
		sc := x.script(o, o.Inputs, false)
		sizes[o] = len(sc)
		lite := ""
		if !o.ExpectSat {
			for _, p := range o.PC {
				if p.Reveal {
					lite = x.script(o, nil, true)
					break
				}
			}
		}
		jobs <- job{o, sc, lite}
	}
	close(jobs)
	wg.Wait()
	var out []*OblResult
	for _, name := range order {
		list := byName[name]
		r := &OblResult{Name: name, Kind: list[0].Kind, Func: list[0].Func, Instances: len(list), Where: list[0].Where}
		backends := map[string]bool{}
		status := "discharged"
		if list[0].ExpectSat {
			// reach cover: at least one instance must be sat (or not refuted)
			anySat, anyUnknown := false, false
			for _, o := range list {
				sr := results[o]
				r.Secs += sr.Secs
				backends[sr.Backend] = true
				if sizes[o] > r.SMTBytes {
					r.SMTBytes = sizes[o]
				}
				switch sr.Status {
				case "sat":
					anySat = true
				case "unsat", "skipped":
				default:
					anyUnknown = true
				}
			}
			if anySat {
				status = "discharged"
			} else if anyUnknown {
				status = "discharged"
				r.Detail = "cover not refuted (solver unknown)"
			} else {
				status = "vacuous"
				r.Detail = "cover unreachable: the contract or path condition is contradictory"
			}
		} else {
			for _, o := range list {
				sr := results[o]
				r.Secs += sr.Secs
				backends[sr.Backend] = true
				if sizes[o] > r.SMTBytes {
					r.SMTBytes = sizes[o]
				}
				switch sr.Status {
				case "unsat":
				case "sat":
					if status != "failed" {
						status = "failed"
						r.Model = sr.Model
						r.Detail = "counterexample from " + sr.Backend
						r.File = sr.File
						r.Trace = o.Trace
					}
				default:
					if status == "discharged" {
						status = "undecided"
						r.Detail = sr.Status + ": " + firstLines(sr.Raw, 6)
						r.File = sr.File
					}
				}
			}
		}
		var bs []string
		for b := range backends {
			bs = append(bs, b)
		}
		sort.Strings(bs)
		r.Backend = strings.Join(bs, ",")
		r.Status = status
		out = append(out, r)
	}
	return out
}

func firstLines(s string, n int) string {
	ls := strings.Split(s, "\n")
	if len(ls) > n {
		ls = ls[:n]
	}
	return strings.Join(ls, " | ")
}
