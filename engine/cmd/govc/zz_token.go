package main

// Typestate tokens: a contract clause
//
//	token <name> acquire <kind>:<target> consume <kind>:<target>
//
// declares a ghost boolean of the function under verification. It is false at entry, becomes true at
// every event matching the acquire pattern (recv:<chan>, send:<chan>, call:<func>), and every event
// matching the consume pattern is an obligation "the token is held" after which it is false again
// (consume release:<func> clears the token at calls of func without that obligation).
// At a loop head the token is forgotten (a fresh boolean) like every loop-carried value, so a loop
// invariant has to say what is known about it: holds(<name>) in specifications.
// This is how "X happens only after Y, once per Y" properties of one function become obligations
// (C11: a received message is handled only after the peer-agency signal of the same iteration).

import (
	"fmt"
	"strings"
)

type tokenDecl struct {
	name              string
	acqKind, acqTgt   string
	consKind, consTgt string
	line              string
}

func parseTokenClause(rest, where string) (*Clause, error) {
	f := strings.Fields(rest)
	if len(f) != 5 || f[1] != "acquire" || f[3] != "consume" || !strings.Contains(f[2], ":") || !strings.Contains(f[4], ":") {
		return nil, fmt.Errorf("token <name> acquire <kind>:<target> consume <kind>:<target>")
	}
	return &Clause{Kind: "token", Name: f[0], Text: f[2] + " " + f[4], Line: where}, nil
}

func (x *Exec) tokenDecls() []tokenDecl {
	if x.rootC == nil {
		return nil
	}
	var out []tokenDecl
	for _, cl := range x.rootC.Clauses {
		if cl.Kind != "token" {
			continue
		}
		p := strings.Fields(cl.Text)
		a := strings.SplitN(p[0], ":", 2)
		c := strings.SplitN(p[1], ":", 2)
		out = append(out, tokenDecl{cl.Name, a[0], a[1], c[0], c[1], cl.Line})
	}
	return out
}

func tokenKey(name string) string { return "$tok:" + name }

func (x *Exec) tokenValue(st *State, name string) *Term {
	if t, ok := st.ghost[tokenKey(name)].(*Term); ok {
		return t
	}
	return TFalse
}

func tokenMatches(kind, tgtPattern, evKind, evTgt string) bool {
	if kind != evKind {
		return false
	}
	if evKind == "call" {
		short := evTgt[strings.LastIndex(evTgt, "/")+1:]
		return short == tgtPattern || strings.HasSuffix(short, "."+tgtPattern) || evTgt == tgtPattern
	}
	return matchTarget(tgtPattern, evTgt)
}

// tokenEvent applies an event to the tokens of the root contract. cond is the condition under which
// the event happens on the continuing path (nil: unconditionally); obligations are emitted in evSt,
// the state in which the event is known to happen.
func (x *Exec) tokenEvent(st, evSt *State, evKind, evTgt string, cond *Term) {
	for _, d := range x.tokenDecls() {
		if d.consKind == "release" && tokenMatches("call", d.consTgt, evKind, evTgt) {
			// release:<func>: the call clears the token; it is not an obligation that it is held
			if cond == nil {
				st.ghost[tokenKey(d.name)] = TFalse
			} else {
				st.ghost[tokenKey(d.name)] = And(x.tokenValue(st, d.name), Not(cond))
			}
		}
		if tokenMatches(d.consKind, d.consTgt, evKind, evTgt) {
			x.emit(evSt, "token", d.name+":held", x.tokenValue(evSt, d.name), false, d.line)
			if cond == nil {
				st.ghost[tokenKey(d.name)] = TFalse
			} else {
				st.ghost[tokenKey(d.name)] = And(x.tokenValue(st, d.name), Not(cond))
			}
		}
		if tokenMatches(d.acqKind, d.acqTgt, evKind, evTgt) {
			if cond == nil {
				st.ghost[tokenKey(d.name)] = TTrue
			} else {
				st.ghost[tokenKey(d.name)] = Or(x.tokenValue(st, d.name), cond)
			}
		}
	}
}

// tokenReturnEvent: a call made by the function under verification has returned. An acquire pattern
// "ok:<func>" acquires the token when the call's last result (an error) is nil.
func (x *Exec) tokenReturnEvent(st *State, key string, res Value) {
	var last Value = res
	if tv, ok := res.(*TupleV); ok && len(tv.Elems) > 0 {
		last = tv.Elems[len(tv.Elems)-1]
	}
	iv, ok := last.(*IfaceV)
	if !ok {
		return
	}
	isNil := Eq(iv.Tag, IntConstI(0))
	for _, d := range x.tokenDecls() {
		if d.acqKind == "ok" && tokenMatches("call", d.acqTgt, "call", key) {
			st.ghost[tokenKey(d.name)] = Or(x.tokenValue(st, d.name), isNil)
		}
	}
}

// havocTokens forgets the tokens at a loop head.
func (x *Exec) havocTokens(st *State) {
	for _, d := range x.tokenDecls() {
		st.ghost[tokenKey(d.name)] = x.freshSym("tok."+d.name, SBool)
	}
}
