package main

// Additional library intrinsics (registered after intrinsics.go's init: file order).

import (
	"go/types"
	"strings"

	"golang.org/x/tools/go/ssa"
)

func init() {
	intrinsics["slices.Concat[[]byte, byte]"] = slicesConcatBytes
	pureIntrinsics["slices.Concat[[]byte, byte]"] = true
	intrinsics["slices.Concat[[]byte,byte]"] = slicesConcatBytes
	intrinsics["slices.Concat[[]uint8,uint8]"] = slicesConcatBytes
	pureIntrinsics["slices.Concat[[]byte,byte]"] = true
	pureIntrinsics["slices.Concat[[]uint8,uint8]"] = true
}

// slicesConcatBytes: slices.Concat over a literal list of byte slices: a fresh slice whose byte
// sequence is the concatenation of the arguments' sequences.
func slicesConcatBytes(x *Exec, fr *Frame, st *State, c *ssa.CallCommon, args []Value) Value {
	list := args[0].(*SliceV)
	if !list.Len.IsConst || list.Len.BVal.Int64() > 8 {
		unsupported("slices.Concat with a non-constant number of arguments")
	}
	k := int(list.Len.BVal.Int64())
	bt := types.NewSlice(types.Typ[types.Uint8])
	var total *Term = BVConstU(0, 64)
	var sq *Term
	for i := 0; i < k; i++ {
		e := x.loadElem(st, list.Base, BVBin("bvadd", list.Off, BVConstU(uint64(i), 64)), bt).(*SliceV)
		total = BVBin("bvadd", total, e.Len)
		s := x.seqOfPre(st, e)
		if sq == nil {
			sq = s
		} else {
			sq = x.seqCat(st, sq, s)
		}
	}
	base := x.newRef(st, "concat")
	total = x.nameTerm(st, total, "concatlen")
	st.Assume(BVCmp("bvult", total, bv62))
	r := &SliceV{base, BVConstU(0, 64), total, total}
	x.setElemArray(st, base, types.Typ[types.Uint8], x.freshSym("concat", ArraySort(SBV64, SBV8)))
	if sq != nil {
		st.Assume(Eq(x.seqOf(st, r), sq))
	}
	return r
}

var _ = strings.HasPrefix
