package main

import (
	"encoding/json"
	"flag"
	"fmt"
	"os"
	"path/filepath"
	"sort"
	"strconv"
	"strings"
	"time"
)

const verifDir = "/verif"

type Options struct {
	Repo    string
	Specs   string
	Work    string
	Tier    string
	Seed    int
	Par     int
	Overlay string
	Verbose bool
	Replay  string
	NoReplay bool
}

func main() {
	os.Setenv("PATH", goBinDir+":"+os.Getenv("PATH"))
	os.Setenv("GOTOOLCHAIN", "local")
	os.Setenv("GOFLAGS", "-mod=mod")
	os.Setenv("GOPROXY", "off")
	os.Setenv("GOSUMDB", "off")
	if len(os.Args) < 2 {
		usage()
	}
	cmd := os.Args[1]
	fs := flag.NewFlagSet(cmd, flag.ExitOnError)
	var o Options
	fs.StringVar(&o.Repo, "repo", "/repo", "repository working tree")
	fs.StringVar(&o.Specs, "specs", filepath.Join(verifDir, "specs"), "library specs (trusted)")
	fs.StringVar(&o.Work, "work", "", "scratch directory")
	fs.StringVar(&o.Tier, "tier", "", "quick|thorough")
	fs.IntVar(&o.Seed, "seed", -1, "solver seed")
	fs.IntVar(&o.Par, "par", 14, "parallel solver processes")
	fs.StringVar(&o.Overlay, "overlay", "", "JSON file {path: replacement-file} applied to the loader")
	fs.BoolVar(&o.Verbose, "v", false, "verbose")
	fs.StringVar(&o.Replay, "replay", "", "re-run a replay file")
	fs.BoolVar(&o.NoReplay, "no-replay", false, "skip replays of counterexamples")
	// allow positional args before flags
	var pos []string
	args := os.Args[2:]
	for len(args) > 0 && !strings.HasPrefix(args[0], "-") {
		pos = append(pos, args[0])
		args = args[1:]
	}
	// flags and positional arguments may be interleaved (the flag package stops at the first
	// positional argument: keep parsing after each one)
	for {
		fs.Parse(args)
		rest := fs.Args()
		if len(rest) == 0 {
			break
		}
		pos = append(pos, rest[0])
		args = rest[1:]
	}
	if o.Tier == "" {
		o.Tier = os.Getenv("VERIF_TIER")
	}
	if o.Tier == "" {
		o.Tier = "quick"
	}
	if o.Seed < 0 {
		if s, err := strconv.Atoi(os.Getenv("VERIF_SEED")); err == nil {
			o.Seed = s
		} else {
			o.Seed = 0
		}
	}
	if o.Work == "" {
		o.Work = filepath.Join(verifDir, ".work", fmt.Sprintf("run-%d", os.Getpid()))
	}
	switch cmd {
	case "verify":
		os.Exit(cmdVerify(&o, pos))
	case "ssa":
		os.Exit(cmdSSA(&o, pos))
	case "check":
		os.Exit(cmdCheck(&o, pos))
	case "list":
		os.Exit(cmdList(&o))
	case "rebaseline":
		os.Exit(cmdRebaseline(&o, pos))
	case "replay":
		os.Exit(cmdReplay(&o, pos))
	default:
		usage()
	}
}

func usage() {
	fmt.Fprintln(os.Stderr, "usage: govc check <ID|all> [--tier quick|thorough] | verify <func-substring>... | ssa <func-substring> | list | rebaseline | replay <ID> <replay-file>")
	os.Exit(2)
}

func readOverlay(path string) (map[string][]byte, error) {
	if path == "" {
		return nil, nil
	}
	data, err := os.ReadFile(path)
	if err != nil {
		return nil, err
	}
	var m map[string]string
	if err := json.Unmarshal(data, &m); err != nil {
		return nil, err
	}
	out := map[string][]byte{}
	for k, v := range m {
		b, err := os.ReadFile(v)
		if err != nil {
			return nil, err
		}
		out[k] = b
	}
	return out, nil
}

func loadAll(o *Options) (*Program, *ContractSet, error) {
	ov, err := readOverlay(o.Overlay)
	if err != nil {
		return nil, nil, err
	}
	t0 := time.Now()
	p, err := LoadProgram(o.Repo, ov)
	if err != nil {
		return nil, nil, err
	}
	cs, err := LoadContracts(o.Repo, p.ModPath, o.Specs)
	if err != nil {
		return nil, nil, err
	}
	if o.Verbose {
		fmt.Fprintf(os.Stderr, "loaded %d functions, %d contracts in %.1fs\n", len(p.Funcs), len(cs.Funcs), time.Since(t0).Seconds())
	}
	return p, cs, nil
}

func cmdSSA(o *Options, pos []string) int {
	p, _, err := loadAll(o)
	if err != nil {
		fmt.Fprintln(os.Stderr, err)
		return 2
	}
	var keys []string
	for k := range p.Funcs {
		for _, s := range pos {
			if strings.Contains(k, s) {
				keys = append(keys, k)
			}
		}
	}
	sort.Strings(keys)
	for _, k := range keys {
		fn := p.Funcs[k]
		fmt.Printf("=== %s\n", k)
		fn.WriteTo(os.Stdout)
		fi := analyzeLoops(fn)
		for _, li := range fi.ordered {
			fmt.Printf("loop %d: header block %d (%s)\n", li.ordinal, li.header.Index, li.header.Comment)
		}
	}
	return 0
}

func cmdList(o *Options) int {
	_, cs, err := loadAll(o)
	if err != nil {
		fmt.Fprintln(os.Stderr, err)
		return 2
	}
	for _, k := range cs.Order {
		c := cs.Funcs[k]
		fmt.Printf("%s props=%v clauses=%d trusted=%v\n", k, c.Props, len(c.Clauses), c.Trusted)
	}
	return 0
}

// verifyOne runs the executor and solver on one function.
func verifyOne(p *Program, cs *ContractSet, o *Options, solver *Solver, key string, tier string) ([]*OblResult, *Exec, error) {
	fn := p.Funcs[key]
	if fn == nil {
		return nil, nil, fmt.Errorf("contract-unmatched: no function %s in the program", key)
	}
	con := cs.Funcs[key]
	cfg := Config{MaxInline: 4, MaxPaths: 4000, SafeChecks: true}
	if v, ok := con.Attrs["maxpaths"]; ok {
		fmt.Sscanf(v, "%d", &cfg.MaxPaths)
	}
	if v, ok := con.Attrs["inline"]; ok {
		fmt.Sscanf(v, "%d", &cfg.MaxInline)
	}
	if v, ok := con.Attrs["safe"]; ok && v == "off" {
		cfg.SafeChecks = false
	}
	x := NewExec(p, cs, cfg)
	t0 := time.Now()
	obls, err := x.VerifyFunction(fn, con)
	if err != nil {
		return nil, x, err
	}
	x.finalize(obls)
	t1 := time.Now()
	res := solver.DischargeAll(x, obls, o.Par)
	if o.Verbose {
		fmt.Fprintf(os.Stderr, "%s: symbolic execution %.1fs (%d obligation instances), solving %.1fs\n", key, t1.Sub(t0).Seconds(), len(obls), time.Since(t1).Seconds())
	}
	return res, x, nil
}

func cmdVerify(o *Options, pos []string) int {
	p, cs, err := loadAll(o)
	if err != nil {
		fmt.Fprintln(os.Stderr, err)
		return 2
	}
	solver := NewSolver(o.Work, o.Seed, 3, 30)
	rc := 0
	for _, k := range cs.Order {
		match := len(pos) == 0
		for _, s := range pos {
			if strings.Contains(k, s) {
				match = true
			}
		}
		c := cs.Funcs[k]
		if !match || c.Trusted || c.NoBody {
			continue
		}
		t0 := time.Now()
		res, x, err := verifyOne(p, cs, o, solver, k, o.Tier)
		if err != nil {
			fmt.Printf("ERROR %s: %v\n", k, err)
			rc = 1
			continue
		}
		fmt.Printf("== %s  (%d obligations, %d paths, %.1fs)\n", k, len(res), x.paths, time.Since(t0).Seconds())
		for _, r := range res {
			if r.Status != "discharged" || o.Verbose {
				fmt.Printf("  %-10s %s  [%s %.2fs x%d] %s\n", r.Status, r.Name, r.Backend, r.Secs, r.Instances, r.Detail)
				if r.Status == "failed" {
					rc = 1
					printModel(r, x)
				}
				if r.Status != "discharged" {
					rc = 1
					if r.File != "" {
						fmt.Printf("      query: %s\n", r.File)
					}
				}
			}
		}
		if o.Verbose {
			for _, n := range x.notes {
				fmt.Printf("  note: %s\n", n)
			}
		}
	}
	if rc == 0 {
		os.RemoveAll(o.Work)
	}
	return rc
}

func printModel(r *OblResult, x *Exec) {
	if r.Model == nil {
		return
	}
	for _, in := range x.inputs {
		if v, ok := r.Model[in.Term]; ok {
			fmt.Printf("      %s = %s\n", in.Name, v)
		}
	}
	if len(r.Trace) > 0 {
		fmt.Printf("      trace: %s\n", strings.Join(r.Trace, " > "))
	}
}
