package main

// Contract language: lexer, parser, file loader.

import (
	"fmt"
	"math/big"
	"os"
	"path/filepath"
	"strings"
	"unicode"
)

// ---------- AST ----------

type Expr interface{ exprString() string }

type (
	EIdent  struct{ Name string }
	EInt    struct{ Val *big.Int }
	EBool   struct{ Val bool }
	EString struct{ Val string }
	ENil    struct{}
	EUnary  struct {
		Op string
		X  Expr
	}
	EBinary struct {
		Op   string
		X, Y Expr
	}
	ECall struct {
		Fun  Expr
		Args []Expr
	}
	ESel struct {
		X   Expr
		Sel string
	}
	EIndex struct{ X, I Expr }
	ESlice struct{ X, Lo, Hi Expr }
	EQuant struct {
		Forall bool
		Vars   []QVar
		Body   Expr
	}
	ETypeArg struct{ Type string } // a type used as an argument, e.g. dyn(x) == type(T)
)

type QVar struct{ Name, Type string }

func (e *EIdent) exprString() string  { return e.Name }
func (e *EInt) exprString() string    { return e.Val.String() }
func (e *EBool) exprString() string   { return fmt.Sprint(e.Val) }
func (e *EString) exprString() string { return fmt.Sprintf("%q", e.Val) }
func (e *ENil) exprString() string    { return "nil" }
func (e *EUnary) exprString() string  { return e.Op + e.X.exprString() }
func (e *EBinary) exprString() string {
	return "(" + e.X.exprString() + " " + e.Op + " " + e.Y.exprString() + ")"
}
func (e *ECall) exprString() string {
	var as []string
	for _, a := range e.Args {
		as = append(as, a.exprString())
	}
	return e.Fun.exprString() + "(" + strings.Join(as, ", ") + ")"
}
func (e *ESel) exprString() string   { return e.X.exprString() + "." + e.Sel }
func (e *EIndex) exprString() string { return e.X.exprString() + "[" + e.I.exprString() + "]" }
func (e *ESlice) exprString() string {
	lo, hi := "", ""
	if e.Lo != nil {
		lo = e.Lo.exprString()
	}
	if e.Hi != nil {
		hi = e.Hi.exprString()
	}
	return e.X.exprString() + "[" + lo + ":" + hi + "]"
}
func (e *EQuant) exprString() string {
	q := "exists"
	if e.Forall {
		q = "forall"
	}
	var vs []string
	for _, v := range e.Vars {
		vs = append(vs, v.Name+" "+v.Type)
	}
	return "(" + q + " " + strings.Join(vs, ", ") + " :: " + e.Body.exprString() + ")"
}
func (e *ETypeArg) exprString() string { return "type(" + e.Type + ")" }

// ---------- lexer ----------

type tok struct {
	kind string // ident int string op eof
	text string
}

func lexExpr(s string) ([]tok, error) {
	var out []tok
	i := 0
	ops := []string{"<==>", "==>", "&&", "||", "==", "!=", "<=", ">=", "<<", ">>", "&^", "::", "+", "-", "*", "/", "%", "&", "|", "^", "<", ">", "!", "(", ")", "[", "]", ",", ".", ":", "?", "{", "}"}
	for i < len(s) {
		c := s[i]
		if c == ' ' || c == '\t' {
			i++
			continue
		}
		if c == '/' && i+1 < len(s) && s[i+1] == '/' {
			break // trailing comment
		}
		if unicode.IsLetter(rune(c)) || c == '_' || c == '$' {
			j := i
			for j < len(s) && (unicode.IsLetter(rune(s[j])) || unicode.IsDigit(rune(s[j])) || s[j] == '_' || s[j] == '$') {
				j++
			}
			out = append(out, tok{"ident", s[i:j]})
			i = j
			continue
		}
		if unicode.IsDigit(rune(c)) {
			j := i
			for j < len(s) && (unicode.IsDigit(rune(s[j])) || unicode.IsLetter(rune(s[j])) || s[j] == '_') {
				j++
			}
			out = append(out, tok{"int", s[i:j]})
			i = j
			continue
		}
		if c == '"' {
			j := i + 1
			for j < len(s) && s[j] != '"' {
				if s[j] == '\\' {
					j++
				}
				j++
			}
			if j >= len(s) {
				return nil, fmt.Errorf("unterminated string in %q", s)
			}
			out = append(out, tok{"string", s[i+1 : j]})
			i = j + 1
			continue
		}
		matched := false
		for _, op := range ops {
			if strings.HasPrefix(s[i:], op) {
				out = append(out, tok{"op", op})
				i += len(op)
				matched = true
				break
			}
		}
		if !matched {
			return nil, fmt.Errorf("unexpected character %q in %q", c, s)
		}
	}
	out = append(out, tok{"eof", ""})
	return out, nil
}

// ---------- parser ----------

type parser struct {
	toks []tok
	pos  int
	src  string
}

func (p *parser) peek() tok { return p.toks[p.pos] }
func (p *parser) next() tok { t := p.toks[p.pos]; p.pos++; return t }
func (p *parser) isOp(s string) bool {
	t := p.peek()
	return t.kind == "op" && t.text == s
}
func (p *parser) expectOp(s string) error {
	if !p.isOp(s) {
		return fmt.Errorf("expected %q at token %d (%q) in %q", s, p.pos, p.peek().text, p.src)
	}
	p.pos++
	return nil
}

func ParseExpr(s string) (Expr, error) {
	toks, err := lexExpr(s)
	if err != nil {
		return nil, err
	}
	p := &parser{toks: toks, src: s}
	e, err := p.parseExpr(0)
	if err != nil {
		return nil, err
	}
	if p.peek().kind != "eof" {
		return nil, fmt.Errorf("trailing tokens at %q in %q", p.peek().text, s)
	}
	return e, nil
}

var binPrec = map[string]int{
	"<==>": 1, "==>": 2, "||": 3, "&&": 4,
	"==": 5, "!=": 5, "<": 5, "<=": 5, ">": 5, ">=": 5, "in": 5,
	"+": 6, "-": 6, "|": 6, "^": 6,
	"*": 7, "/": 7, "%": 7, "<<": 7, ">>": 7, "&": 7, "&^": 7,
}

func (p *parser) parseExpr(minPrec int) (Expr, error) {
	lhs, err := p.parseUnary()
	if err != nil {
		return nil, err
	}
	for {
		t := p.peek()
		var op string
		if t.kind == "op" {
			op = t.text
		} else if t.kind == "ident" && t.text == "in" {
			op = "in"
		} else {
			break
		}
		prec, ok := binPrec[op]
		if !ok || prec < minPrec {
			break
		}
		p.next()
		nextMin := prec + 1
		if op == "==>" {
			nextMin = prec // right assoc
		}
		rhs, err := p.parseExpr(nextMin)
		if err != nil {
			return nil, err
		}
		lhs = &EBinary{Op: op, X: lhs, Y: rhs}
	}
	return lhs, nil
}

func (p *parser) parseUnary() (Expr, error) {
	t := p.peek()
	if t.kind == "op" && (t.text == "!" || t.text == "-" || t.text == "^" || t.text == "*" || t.text == "&") {
		p.next()
		x, err := p.parseUnary()
		if err != nil {
			return nil, err
		}
		return &EUnary{Op: t.text, X: x}, nil
	}
	if t.kind == "ident" && (t.text == "forall" || t.text == "exists") {
		p.next()
		var vars []QVar
		for {
			n := p.next()
			if n.kind != "ident" {
				return nil, fmt.Errorf("quantifier: expected variable name in %q", p.src)
			}
			ty, err := p.parseTypeText()
			if err != nil {
				return nil, err
			}
			vars = append(vars, QVar{n.text, ty})
			if p.isOp(",") {
				p.next()
				continue
			}
			break
		}
		if err := p.expectOp("::"); err != nil {
			return nil, err
		}
		body, err := p.parseExpr(0)
		if err != nil {
			return nil, err
		}
		return &EQuant{Forall: t.text == "forall", Vars: vars, Body: body}, nil
	}
	return p.parsePostfix()
}

// parseTypeText consumes a type: [*|[]|[N]]* ident(.ident)?
func (p *parser) parseTypeText() (string, error) {
	var b strings.Builder
	for {
		if p.isOp("*") {
			p.next()
			b.WriteString("*")
			continue
		}
		if p.isOp("[") {
			p.next()
			b.WriteString("[")
			if p.peek().kind == "int" {
				b.WriteString(p.next().text)
			}
			if err := p.expectOp("]"); err != nil {
				return "", err
			}
			b.WriteString("]")
			continue
		}
		break
	}
	t := p.next()
	if t.kind != "ident" {
		return "", fmt.Errorf("expected type name, got %q in %q", t.text, p.src)
	}
	b.WriteString(t.text)
	if p.isOp(".") {
		p.next()
		t2 := p.next()
		b.WriteString("." + t2.text)
	}
	return b.String(), nil
}

func (p *parser) parsePostfix() (Expr, error) {
	var x Expr
	t := p.next()
	switch t.kind {
	case "ident":
		switch t.text {
		case "true":
			x = &EBool{true}
		case "false":
			x = &EBool{false}
		case "nil":
			x = &ENil{}
		case "type":
			if p.isOp("(") {
				p.next()
				ty, err := p.parseTypeText()
				if err != nil {
					return nil, err
				}
				if err := p.expectOp(")"); err != nil {
					return nil, err
				}
				x = &ETypeArg{ty}
			} else {
				x = &EIdent{t.text}
			}
		default:
			x = &EIdent{t.text}
		}
	case "int":
		v, ok := new(big.Int).SetString(strings.ReplaceAll(t.text, "_", ""), 0)
		if !ok {
			return nil, fmt.Errorf("bad integer literal %q", t.text)
		}
		x = &EInt{v}
	case "string":
		x = &EString{t.text}
	case "op":
		if t.text == "(" {
			e, err := p.parseExpr(0)
			if err != nil {
				return nil, err
			}
			if err := p.expectOp(")"); err != nil {
				return nil, err
			}
			x = e
		} else {
			return nil, fmt.Errorf("unexpected %q in %q", t.text, p.src)
		}
	default:
		return nil, fmt.Errorf("unexpected end of expression in %q", p.src)
	}
	for {
		if p.isOp(".") {
			p.next()
			s := p.next()
			if s.kind != "ident" {
				return nil, fmt.Errorf("expected selector in %q", p.src)
			}
			x = &ESel{x, s.text}
			continue
		}
		if p.isOp("(") {
			p.next()
			var args []Expr
			for !p.isOp(")") {
				a, err := p.parseExpr(0)
				if err != nil {
					return nil, err
				}
				args = append(args, a)
				if p.isOp(",") {
					p.next()
				}
			}
			p.next()
			x = &ECall{x, args}
			continue
		}
		if p.isOp("[") {
			p.next()
			var lo, hi Expr
			var err error
			isSlice := false
			if !p.isOp(":") {
				lo, err = p.parseExpr(0)
				if err != nil {
					return nil, err
				}
			}
			if p.isOp(":") {
				isSlice = true
				p.next()
				if !p.isOp("]") {
					hi, err = p.parseExpr(0)
					if err != nil {
						return nil, err
					}
				}
			}
			if err := p.expectOp("]"); err != nil {
				return nil, err
			}
			if isSlice {
				x = &ESlice{x, lo, hi}
			} else {
				x = &EIndex{x, lo}
			}
			continue
		}
		break
	}
	return x, nil
}

// ---------- contract structures ----------

type Clause struct {
	Kind  string // requires ensures let loopinv loopdec loopunroll assigns callback ghost on assume
	Label string
	Name  string // let name / callback target
	Loop  int
	N     int // unroll count
	E     Expr
	Text  string
	Line  string // file:line
}

type FuncContract struct {
	Pkg      string // package import path
	Key      string // e.g. "CalculateMinFee", "(*DecodeStoreCbor).SetCbor", "Outer$1"
	Params   []string
	Results  []string
	Recv     string
	Props    []string
	Clauses  []*Clause
	Pure     bool
	Functional bool
	Inline   bool
	Trusted  bool // contract is assumed, body not verified (only allowed in /verif/specs)
	NoBody   bool
	File     string
	Line     int
	MayPanic bool
	Attrs    map[string]string
}

type SpecFunc struct {
	Pkg    string
	Name   string
	Params []QVar
	Result string
	Body   Expr // nil => uninterpreted
	File   string
	Rec    bool // recursive definition: applications are UF terms with one-step unfolding instances
	// Opaque: a non-recursive definition kept folded: applications are UF terms, and the definition is
	// stated once as a universally quantified axiom triggered on the application
	Opaque bool
}

type DeclIface struct { // pure interface method declaration
	Pkg    string
	Iface  string
	Method string
}

type Lemma struct {
	Pkg   string
	Name  string
	E     Expr
	Props []string
	File  string
	Text  string
}

type Axiom struct {
	Pkg  string
	Name string
	E    Expr
	File string
	Text string
}

type ContractSet struct {
	Funcs     map[string]*FuncContract // key: pkgpath + "." + Key
	Specs     map[string]*SpecFunc     // key: name (global) and pkg.name
	PureIface map[string]bool          // "pkgpath.Iface.Method"
	PureCalls []string                 // name suffixes of functions assumed not to write caller-visible memory
	PureAny   map[string]string        // method name -> result type (pure on every receiver)
	Lemmas    []*Lemma
	Axioms    []*Axiom
	Files     []string
	Order     []string
}

// IsPure reports whether an interface method is declared a deterministic getter.
func (cs *ContractSet) IsPure(ifaceKey, method string) bool {
	if cs.PureIface[ifaceKey+"."+method] {
		return true
	}
	_, ok := cs.PureAny[method]
	return ok
}

func NewContractSet() *ContractSet {
	return &ContractSet{Funcs: map[string]*FuncContract{}, Specs: map[string]*SpecFunc{}, PureIface: map[string]bool{}, PureAny: map[string]string{}}
}

// readContractLines extracts //@ lines; continuation: a line that starts with
// more indentation and whose first word is not a keyword is appended to the previous one.
func readContractLines(path string) ([]string, []int, error) {
	data, err := os.ReadFile(path)
	if err != nil {
		return nil, nil, err
	}
	var lines []string
	var nums []int
	for i, l := range strings.Split(string(data), "\n") {
		tl := strings.TrimSpace(l)
		if !strings.HasPrefix(tl, "//@") {
			continue
		}
		body := strings.TrimPrefix(tl, "//@")
		if strings.TrimSpace(body) == "" {
			continue
		}
		lines = append(lines, body)
		nums = append(nums, i+1)
	}
	return lines, nums, nil
}

var clauseKeywords = map[string]bool{
	"func": true, "spec": true, "pureany": true, "purefunc": true, "detfunc": true, "owned": true, "lemma": true, "axiom": true, "pureiface": true, "final": true,
	"props": true, "requires": true, "ensures": true, "let": true, "loop": true, "assigns": true,
	"pure": true, "functional": true, "inline": true, "trusted": true, "callback": true, "ghost": true, "on": true,
	"maypanic": true, "attr": true, "assume": true, "package": true, "nobody": true, "cover": true, "token": true, "purecall": true,
}

func firstWord(s string) (string, string) {
	s = strings.TrimSpace(s)
	i := strings.IndexAny(s, " \t")
	if i < 0 {
		return s, ""
	}
	return s[:i], strings.TrimSpace(s[i+1:])
}

func splitLabel(s string) (string, string) {
	// label: expr   (label is identifier chars and '-')
	i := strings.Index(s, ":")
	if i <= 0 {
		return "", s
	}
	if i+1 < len(s) && s[i+1] == ':' {
		return "", s
	}
	lab := s[:i]
	for _, r := range lab {
		if !(unicode.IsLetter(r) || unicode.IsDigit(r) || r == '_' || r == '-') {
			return "", s
		}
	}
	return lab, strings.TrimSpace(s[i+1:])
}

func parseNameList(s string) []string {
	s = strings.TrimSpace(s)
	s = strings.TrimPrefix(s, "(")
	s = strings.TrimSuffix(s, ")")
	if strings.TrimSpace(s) == "" {
		return nil
	}
	var out []string
	for _, p := range strings.Split(s, ",") {
		w, _ := firstWord(p)
		out = append(out, w)
	}
	return out
}

// parseFuncHeader parses: [ (recv *T) ] Name(p1, p2) (r1, r2)
func parseFuncHeader(h string) (key, recv string, params, results []string, err error) {
	h = strings.TrimSpace(h)
	recvType := ""
	if strings.HasPrefix(h, "(") {
		end := strings.Index(h, ")")
		if end < 0 {
			return "", "", nil, nil, fmt.Errorf("bad receiver in %q", h)
		}
		r := strings.TrimSpace(h[1:end])
		parts := strings.Fields(r)
		if len(parts) == 2 {
			recv = parts[0]
			recvType = parts[1]
		} else if len(parts) == 1 {
			recv = "recv"
			recvType = parts[0]
		} else {
			return "", "", nil, nil, fmt.Errorf("bad receiver %q", r)
		}
		h = strings.TrimSpace(h[end+1:])
	}
	po := strings.Index(h, "(")
	if po < 0 {
		return "", "", nil, nil, fmt.Errorf("missing parameter list in %q", h)
	}
	name := strings.TrimSpace(h[:po])
	pc := strings.Index(h[po:], ")")
	if pc < 0 {
		return "", "", nil, nil, fmt.Errorf("missing ) in %q", h)
	}
	params = parseNameList(h[po : po+pc+1])
	rest := strings.TrimSpace(h[po+pc+1:])
	if rest != "" {
		results = parseNameList(rest)
	}
	if recvType != "" {
		if strings.HasPrefix(recvType, "*") {
			key = "(*" + recvType[1:] + ")." + name
		} else {
			key = "(" + recvType + ")." + name
		}
	} else {
		key = name
	}
	return
}

func (cs *ContractSet) LoadFile(path, pkgPath string, isSpec bool) error {
	lines, nums, err := readContractLines(path)
	if err != nil {
		return err
	}
	cs.Files = append(cs.Files, path)
	// merge continuation lines
	type ln struct {
		text string
		num  int
	}
	var merged []ln
	for i, l := range lines {
		w, _ := firstWord(l)
		if !clauseKeywords[w] && len(merged) > 0 {
			merged[len(merged)-1].text += " " + strings.TrimSpace(l)
			continue
		}
		merged = append(merged, ln{strings.TrimSpace(l), nums[i]})
	}
	var cur *FuncContract
	for _, l := range merged {
		w, rest := firstWord(l.text)
		where := fmt.Sprintf("%s:%d", path, l.num)
		fail := func(e error) error { return fmt.Errorf("%s: %v", where, e) }
		switch w {
		case "package":
			pkgPath = rest
			cur = nil
		case "func":
			key, recv, params, results, err := parseFuncHeader(rest)
			if err != nil {
				return fail(err)
			}
			cur = &FuncContract{Pkg: pkgPath, Key: key, Recv: recv, Params: params, Results: results, File: path, Line: l.num, Attrs: map[string]string{}}
			full := pkgPath + "." + key
			if _, dup := cs.Funcs[full]; dup {
				return fail(fmt.Errorf("duplicate contract for %s", full))
			}
			cs.Funcs[full] = cur
			cs.Order = append(cs.Order, full)
		case "spec":
			// spec func name(a T, b U) R [= expr]
			w2, r2 := firstWord(rest)
			rec := false
			opaque := false
			if w2 == "rec" {
				rec = true
				w2, r2 = firstWord(r2)
			} else if w2 == "opaque" {
				rec, opaque = true, true
				w2, r2 = firstWord(r2)
			}
			if w2 != "func" {
				return fail(fmt.Errorf("expected 'spec [rec] func'"))
			}
			sf, err := parseSpecFunc(r2)
			if err != nil {
				return fail(err)
			}
			sf.Rec = rec
			sf.Opaque = opaque
			sf.Pkg = pkgPath
			sf.File = path
			cs.Specs[sf.Name] = sf
			cur = nil
		case "pureiface":
			// pureiface Iface.Method [Iface.Method ...]   (package-relative or fully qualified with /)
			for _, f := range strings.Fields(rest) {
				if strings.Contains(f, "/") {
					cs.PureIface[f] = true
				} else {
					cs.PureIface[pkgPath+"."+f] = true
				}
			}
			cur = nil
		case "pureany":
			// pureany Method resulttype
			mn, rt := firstWord(rest)
			cs.PureAny[mn] = rt
			cur = nil
		case "final":
			// final Type.field [Type.field ...]: the field is written only while its object is being
			// constructed (checked over the whole module, zz_final.go); its value survives every call
			// and every loop
			for _, f := range strings.Fields(rest) {
				cs.PureIface["final:"+pkgPath+"."+f] = true
			}
			cur = nil
		case "purefunc":
			// purefunc Field [Field ...]: function-typed values stored in a field / variable of that
			// name are assumed not to write caller-visible memory (an assumption, listed in evidence)
			for _, f := range strings.Fields(rest) {
				cs.PureIface["purefunc:"+f] = true
			}
			cur = nil
		case "owned":
			// owned <Prop> Type.field Writer [Writer ...]: ownership declaration (zz_owned.go)
			fs := strings.Fields(rest)
			if len(fs) < 3 {
				return fail(fmt.Errorf("owned <Prop> Type.field Writer [Writer ...]"))
			}
			cs.PureIface["owned:"+pkgPath+"|"+fs[0]+"|"+fs[1]+"|"+strings.Join(fs[2:], ",")] = true
			cur = nil
		case "detfunc":
			// detfunc Field [Field ...]: as purefunc, and the results are a function of the function
			// value and its arguments (zz_detfunc.go)
			for _, f := range strings.Fields(rest) {
				cs.PureIface["purefunc:"+f] = true
				cs.PureIface["detfunc:"+f] = true
			}
			cur = nil
		case "purecall":
			// purecall Suffix [Suffix ...]: every function whose name ends with the suffix (e.g.
			// "(*Client).Start") is assumed not to write memory visible to its callers; calls are not
			// inlined, results are unconstrained. Only allowed in /verif/specs (an assumption,
			// listed in evidence).
			if !isSpec {
				return fail(fmt.Errorf("purecall only allowed in /verif/specs"))
			}
			for _, f := range strings.Fields(rest) {
				cs.PureCalls = append(cs.PureCalls, f)
			}
			cur = nil
		case "lemma", "axiom":
			lab, body := splitLabel(rest)
			if lab == "" {
				return fail(fmt.Errorf("%s needs a name", w))
			}
			e, err := ParseExpr(body)
			if err != nil {
				return fail(err)
			}
			if w == "lemma" {
				cs.Lemmas = append(cs.Lemmas, &Lemma{Pkg: pkgPath, Name: lab, E: e, File: path, Text: body})
			} else {
				if !isSpec {
					return fail(fmt.Errorf("axiom only allowed in /verif/specs"))
				}
				cs.Axioms = append(cs.Axioms, &Axiom{Pkg: pkgPath, Name: lab, E: e, File: path, Text: body})
			}
			cur = nil
		default:
			if cur == nil {
				if w == "props" && len(cs.Lemmas) > 0 {
					cs.Lemmas[len(cs.Lemmas)-1].Props = strings.Fields(rest)
					continue
				}
				return fail(fmt.Errorf("clause %q outside a func contract", w))
			}
			switch w {
			case "props":
				cur.Props = append(cur.Props, strings.Fields(rest)...)
			case "pure":
				cur.Pure = true
			case "functional":
				// pure and deterministic: results are a function of the arguments (and the heap epoch)
				cur.Pure = true
				cur.Functional = true
			case "inline":
				cur.Inline = true
			case "nobody":
				// The body is not verified. In /repo this is only allowed for a contract that promises
				// nothing (no ensures): callers then havoc whatever its frame allows, which is sound for
				// any callee. Promises about unverified bodies belong in /verif/specs (trusted).
				cur.NoBody = true
				if !isSpec {
					for _, c := range cur.Clauses {
						if c.Kind == "ensures" {
							return fail(fmt.Errorf("'nobody' contract must not have ensures clauses"))
						}
					}
				}
			case "maypanic":
				cur.MayPanic = true
			case "trusted":
				if !isSpec {
					return fail(fmt.Errorf("'trusted' only allowed in /verif/specs"))
				}
				cur.Trusted = true
			case "attr":
				k, v := firstWord(rest)
				cur.Attrs[k] = v
			case "requires", "ensures", "assume", "cover":
				if w == "assume" && !isSpec {
					return fail(fmt.Errorf("'assume' only allowed in /verif/specs"))
				}
				lab, body := splitLabel(rest)
				e, err := ParseExpr(body)
				if err != nil {
					return fail(err)
				}
				if lab == "" {
					lab = fmt.Sprintf("%s%d", w[:3], len(cur.Clauses))
				}
				if w == "ensures" && cur.NoBody && !isSpec {
					return fail(fmt.Errorf("'nobody' contract must not have ensures clauses"))
				}
				cur.Clauses = append(cur.Clauses, &Clause{Kind: w, Label: lab, E: e, Text: body, Line: where})
			case "let":
				i := strings.Index(rest, "=")
				if i < 0 {
					return fail(fmt.Errorf("let needs '='"))
				}
				name := strings.TrimSpace(rest[:i])
				e, err := ParseExpr(rest[i+1:])
				if err != nil {
					return fail(err)
				}
				cur.Clauses = append(cur.Clauses, &Clause{Kind: "let", Name: name, E: e, Text: rest, Line: where})
			case "loop":
				var n int
				nw, r2 := firstWord(rest)
				if _, err := fmt.Sscanf(nw, "%d", &n); err != nil {
					return fail(fmt.Errorf("loop needs an ordinal"))
				}
				kw, body := firstWord(r2)
				switch kw {
				case "invariant":
					e, err := ParseExpr(body)
					if err != nil {
						return fail(err)
					}
					cur.Clauses = append(cur.Clauses, &Clause{Kind: "loopinv", Loop: n, E: e, Text: body, Line: where})
				case "decreases":
					e, err := ParseExpr(body)
					if err != nil {
						return fail(err)
					}
					cur.Clauses = append(cur.Clauses, &Clause{Kind: "loopdec", Loop: n, E: e, Text: body, Line: where})
				case "unroll":
					var k int
					if _, err := fmt.Sscanf(body, "%d", &k); err != nil {
						return fail(fmt.Errorf("unroll needs a count"))
					}
					cur.Clauses = append(cur.Clauses, &Clause{Kind: "loopunroll", Loop: n, N: k, Line: where})
				default:
					return fail(fmt.Errorf("unknown loop clause %q", kw))
				}
			case "assigns":
				cur.Clauses = append(cur.Clauses, &Clause{Kind: "assigns", Text: rest, Line: where})
			case "token":
				cl, err := parseTokenClause(rest, where)
				if err != nil {
					return fail(err)
				}
				cur.Clauses = append(cur.Clauses, cl)
			case "callback":
				// callback <target> requires label: expr
				tgt, r2 := firstWord(rest)
				kw, body := firstWord(r2)
				if kw != "requires" {
					return fail(fmt.Errorf("callback <target> requires ..."))
				}
				lab, b2 := splitLabel(body)
				e, err := ParseExpr(b2)
				if err != nil {
					return fail(err)
				}
				if lab == "" {
					lab = "cb"
				}
				cur.Clauses = append(cur.Clauses, &Clause{Kind: "callback", Name: tgt, Label: lab, E: e, Text: b2, Line: where})
			default:
				return fail(fmt.Errorf("unknown clause %q", w))
			}
		}
	}
	return nil
}

func parseSpecFunc(s string) (*SpecFunc, error) {
	// name(a T, b U) R [= expr]
	po := strings.Index(s, "(")
	if po < 0 {
		return nil, fmt.Errorf("spec func: missing (")
	}
	name := strings.TrimSpace(s[:po])
	depth := 0
	pc := -1
	for i := po; i < len(s); i++ {
		if s[i] == '(' {
			depth++
		} else if s[i] == ')' {
			depth--
			if depth == 0 {
				pc = i
				break
			}
		}
	}
	if pc < 0 {
		return nil, fmt.Errorf("spec func: missing )")
	}
	sf := &SpecFunc{Name: name}
	ps := strings.TrimSpace(s[po+1 : pc])
	if ps != "" {
		for _, p := range strings.Split(ps, ",") {
			n, t := firstWord(p)
			if t == "" {
				return nil, fmt.Errorf("spec func %s: parameter %q needs a type", name, p)
			}
			sf.Params = append(sf.Params, QVar{n, t})
		}
	}
	rest := strings.TrimSpace(s[pc+1:])
	if i := strings.Index(rest, "="); i >= 0 && !strings.HasPrefix(rest[i:], "==") {
		sf.Result = strings.TrimSpace(rest[:i])
		e, err := ParseExpr(rest[i+1:])
		if err != nil {
			return nil, err
		}
		sf.Body = e
	} else {
		sf.Result = rest
	}
	if sf.Result == "" {
		return nil, fmt.Errorf("spec func %s: missing result type", name)
	}
	return sf, nil
}

// LoadContracts loads every verif_contracts*.go below repoDir plus specs in specDir.
func LoadContracts(repoDir, modPath, specDir string) (*ContractSet, error) {
	cs := NewContractSet()
	if specDir != "" {
		specs, _ := filepath.Glob(filepath.Join(specDir, "*.spec"))
		for _, f := range specs {
			if err := cs.LoadFile(f, "", true); err != nil {
				return nil, err
			}
		}
	}
	err := filepath.Walk(repoDir, func(path string, info os.FileInfo, err error) error {
		if err != nil {
			return nil
		}
		if info.IsDir() {
			if info.Name() == ".git" {
				return filepath.SkipDir
			}
			return nil
		}
		if strings.HasPrefix(info.Name(), "verif_contracts") && strings.HasSuffix(info.Name(), ".go") {
			rel, _ := filepath.Rel(repoDir, filepath.Dir(path))
			pkg := modPath
			if rel != "." {
				pkg = modPath + "/" + filepath.ToSlash(rel)
			}
			if err := cs.LoadFile(path, pkg, false); err != nil {
				return err
			}
		}
		return nil
	})
	return cs, err
}
