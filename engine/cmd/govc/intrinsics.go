package main

// Builtins and library intrinsics (trusted base; listed in evidence).

import (
	"fmt"
	"go/types"
	"math/big"
	"strings"

	"golang.org/x/tools/go/ssa"
)

func bigInt(v int64) *big.Int { return big.NewInt(v) }

type intrinsicFn func(x *Exec, fr *Frame, st *State, c *ssa.CallCommon, args []Value) Value

var intrinsics map[string]intrinsicFn
var pureIntrinsics = map[string]bool{}

func init() {
	intrinsics = map[string]intrinsicFn{
		"fmt.Errorf":       freshError("*fmt.wrapError"),
		"errors.New":       freshError("*errors.errorString"),
		"fmt.Sprintf":      freshString,
		"fmt.Sprint":       freshString,
		"errors.Is":        freshBool,
		"errors.As":        freshBool,
		"errors.Join":      freshErrorMaybe,
		"math/bits.Mul64":  bitsMul64,
		"math/bits.Add64":  bitsAdd64,
		"math/bits.Sub64":  bitsSub64,
		"math/bits.Len64":  bitsLen(64),
		"math/bits.Len":    bitsLen(64),
		"math/bits.Len32":  bitsLen(32),
		"math/bits.Len8":   bitsLen(8),
		"bytes.Equal":      bytesEqual,
		"bytes.Compare":    bytesCompare,
		"encoding/binary.(bigEndian).Uint16": beUint(2),
		"encoding/binary.(bigEndian).Uint32": beUint(4),
		"encoding/binary.(bigEndian).Uint64": beUint(8),
		"encoding/binary.(bigEndian).PutUint16": bePut(2),
		"encoding/binary.(bigEndian).PutUint32": bePut(4),
		"encoding/binary.(bigEndian).PutUint64": bePut(8),
		"sync.(*Mutex).Lock":     noop,
		"sync.(*Mutex).Unlock":   noop,
		"sync.(*RWMutex).Lock":   noop,
		"sync.(*RWMutex).Unlock": noop,
		"sync.(*RWMutex).RLock":  noop,
		"sync.(*RWMutex).RUnlock": noop,
		"sync.(*Once).Do":        nil, // handled as uncontracted
		"strings.EqualFold":      pureUF("strings.EqualFold"),
		"strings.ToLower":        pureUF("strings.ToLower"),
		"strings.HasPrefix":      pureUF("strings.HasPrefix"),
		"encoding/hex.EncodeToString": pureUF("hex.EncodeToString"),
		"log/slog.(*Logger).Debug": noop,
		"log/slog.(*Logger).Info":  noop,
		"log/slog.(*Logger).Warn":  noop,
		"log/slog.(*Logger).Error": noop,
		"log/slog.String":          freshAny,
		"log/slog.Int":             freshAny,
		"log/slog.Any":             freshAny,
		"log/slog.Uint64":          freshAny,
	}
	delete(intrinsics, "sync.(*Once).Do")
	for k := range intrinsics {
		pureIntrinsics[k] = true
	}
	for _, k := range []string{"encoding/binary.(bigEndian).PutUint16", "encoding/binary.(bigEndian).PutUint32", "encoding/binary.(bigEndian).PutUint64"} {
		delete(pureIntrinsics, k)
	}
}

func noop(x *Exec, fr *Frame, st *State, c *ssa.CallCommon, args []Value) Value { return nil }

func freshAny(x *Exec, fr *Frame, st *State, c *ssa.CallCommon, args []Value) Value {
	return x.freshResult(st, x.resultType(c), "lib")
}

func freshError(tname string) intrinsicFn {
	return func(x *Exec, fr *Frame, st *State, c *ssa.CallCommon, args []Value) Value {
		ref := x.newRef(st, "err")
		id, ok := x.typeTags[tname]
		if !ok {
			id = len(x.typeTags) + 1
			x.typeTags[tname] = id
		}
		return &IfaceV{IntConstI(int64(id)), ref}
	}
}

func freshErrorMaybe(x *Exec, fr *Frame, st *State, c *ssa.CallCommon, args []Value) Value {
	return x.freshValue(st, x.resultType(c), "errjoin")
}

func freshString(x *Exec, fr *Frame, st *State, c *ssa.CallCommon, args []Value) Value {
	s := x.freshSym("sprintf", SStr)
	st.Assume(BVCmp("bvult", x.strLen(s), bv62))
	return s
}

func freshBool(x *Exec, fr *Frame, st *State, c *ssa.CallCommon, args []Value) Value {
	return x.freshSym("lib.bool", SBool)
}

func pureUF(name string) intrinsicFn {
	return func(x *Exec, fr *Frame, st *State, c *ssa.CallCommon, args []Value) Value {
		var ins []*Term
		sig := c.Signature()
		for i, a := range args {
			ins = append(ins, x.flatten(sig.Params().At(i).Type(), a)...)
		}
		rt := x.resultType(c)
		cs := x.compsOf(rt)
		var ts []*Term
		for _, cp := range cs {
			ts = append(ts, x.D.Fun(smtName("lib:"+name+cp.suffix), cp.sort, ins...))
		}
		v, _ := x.unflatten(rt, ts)
		return v
	}
}

func bitsMul64(x *Exec, fr *Frame, st *State, c *ssa.CallCommon, args []Value) Value {
	a := ZeroExt(64, args[0].(*Term))
	b := ZeroExt(64, args[1].(*Term))
	p := x.nameTerm(st, BVBin("bvmul", a, b), "mul128")
	return &TupleV{[]Value{Extract(127, 64, p), Extract(63, 0, p)}}
}

func bitsAdd64(x *Exec, fr *Frame, st *State, c *ssa.CallCommon, args []Value) Value {
	a := ZeroExt(2, args[0].(*Term))
	b := ZeroExt(2, args[1].(*Term))
	cy := ZeroExt(2, args[2].(*Term))
	s := x.nameTerm(st, BVBin("bvadd", BVBin("bvadd", a, b), cy), "add66")
	// Go doc: carry must be 0 or 1, otherwise undefined; carryOut is 0 or 1
	return &TupleV{[]Value{Extract(63, 0, s), ZeroExt(63, Extract(64, 64, s))}}
}

func bitsSub64(x *Exec, fr *Frame, st *State, c *ssa.CallCommon, args []Value) Value {
	a := ZeroExt(2, args[0].(*Term))
	b := ZeroExt(2, args[1].(*Term))
	bw := ZeroExt(2, args[2].(*Term))
	d := x.nameTerm(st, BVBin("bvsub", BVBin("bvsub", a, b), bw), "sub66")
	return &TupleV{[]Value{Extract(63, 0, d), ZeroExt(63, Extract(64, 64, d))}}
}

func bitsLen(w int) intrinsicFn {
	return func(x *Exec, fr *Frame, st *State, c *ssa.CallCommon, args []Value) Value {
		a := args[0].(*Term)
		a = Resize(a, w, false)
		// Len = number of bits to represent a; chain of ite from the top bit
		r := BVConstU(0, 64)
		for i := 0; i < w; i++ {
			bit := Eq(Extract(i, i, a), BVConstU(1, 1))
			r = Ite(bit, BVConstU(uint64(i+1), 64), r)
		}
		return x.nameTerm(st, r, "bitslen")
	}
}

func bytesEqual(x *Exec, fr *Frame, st *State, c *ssa.CallCommon, args []Value) Value {
	a := args[0].(*SliceV)
	b := args[1].(*SliceV)
	sa, sb := x.seqOf(st, a), x.seqOf(st, b)
	st.Assume(Eq(x.seqLen(sa), a.Len))
	st.Assume(Eq(x.seqLen(sb), b.Len))
	return Eq(sa, sb)
}

func bytesCompare(x *Exec, fr *Frame, st *State, c *ssa.CallCommon, args []Value) Value {
	a := args[0].(*SliceV)
	b := args[1].(*SliceV)
	sa, sb := x.seqOf(st, a), x.seqOf(st, b)
	st.Assume(Eq(x.seqLen(sa), a.Len))
	st.Assume(Eq(x.seqLen(sb), b.Len))
	r := x.D.Fun("seqcmp", SBV64, sa, sb)
	x.needSeqCmp = true
	st.Assume(Or(Eq(r, BVConstU(0, 64)), Eq(r, BVConstU(1, 64)), Eq(r, BVConst(bigInt(-1), 64))))
	st.Assume(Eq(Eq(r, BVConstU(0, 64)), Eq(sa, sb)))
	// antisymmetry instance
	r2 := x.D.Fun("seqcmp", SBV64, sb, sa)
	st.Assume(Eq(r2, BVNeg(r)))
	return r
}

func beUint(n int) intrinsicFn {
	return func(x *Exec, fr *Frame, st *State, c *ssa.CallCommon, args []Value) Value {
		s := args[len(args)-1].(*SliceV)
		need := BVCmp("bvuge", s.Len, BVConstU(uint64(n), 64))
		x.emitSafe(fr, st, "index", need, c.Pos())
		st.Assume(need)
		bt := types.Typ[types.Uint8]
		var r *Term
		for i := 0; i < n; i++ {
			b := x.loadElem(st, s.Base, BVBin("bvadd", s.Off, BVConstU(uint64(i), 64)), bt).(*Term)
			if r == nil {
				r = b
			} else {
				r = Concat(r, b)
			}
		}
		return x.nameTerm(st, r, "be")
	}
}

func bePut(n int) intrinsicFn {
	return func(x *Exec, fr *Frame, st *State, c *ssa.CallCommon, args []Value) Value {
		s := args[len(args)-2].(*SliceV)
		v := args[len(args)-1].(*Term)
		need := BVCmp("bvuge", s.Len, BVConstU(uint64(n), 64))
		x.emitSafe(fr, st, "index", need, c.Pos())
		st.Assume(need)
		bt := types.Typ[types.Uint8]
		for i := 0; i < n; i++ {
			hi := 8*(n-i) - 1
			x.storeElem(st, s.Base, BVBin("bvadd", s.Off, BVConstU(uint64(i), 64)), bt, Extract(hi, hi-7, v))
		}
		return nil
	}
}

// ---------- builtins ----------

func (x *Exec) builtin(fr *Frame, st *State, b *ssa.Builtin, c *ssa.CallCommon, args []Value) Value {
	switch b.Name() {
	case "len":
		switch v := args[0].(type) {
		case *SliceV:
			return v.Len
		case *Term:
			t := c.Args[0].Type()
			if isString(t) {
				return x.strLen(v)
			}
			if mt, ok := t.Underlying().(*types.Map); ok {
				return x.mapLen(st, v, mt)
			}
			if n := byteArrayLen(t); n > 0 {
				return BVConstU(uint64(n), 64)
			}
			if _, ok := t.Underlying().(*types.Chan); ok {
				r := x.freshSym("chanlen", SBV64)
				st.Assume(BVCmp("bvult", r, bv62))
				return r
			}
		case *PtrV:
			if at, ok := v.Elem.Underlying().(*types.Array); ok {
				return BVConstU(uint64(at.Len()), 64)
			}
		case *ArrSym:
			return BVConstU(uint64(v.Len), 64)
		}
		unsupported("len of %T", args[0])
	case "cap":
		switch v := args[0].(type) {
		case *SliceV:
			return v.Cap
		}
		r := x.freshSym("cap", SBV64)
		st.Assume(BVCmp("bvult", r, bv62))
		return r
	case "append":
		return x.appendOp(fr, st, c, args)
	case "copy":
		return x.copyOp(fr, st, c, args)
	case "delete":
		mt := c.Args[0].Type().Underlying().(*types.Map)
		x.mapDelete(st, args[0].(*Term), mt, args[1])
		return nil
	case "min", "max":
		t := c.Args[0].Type()
		_, signed, ok := intInfo(t)
		if !ok {
			unsupported("min/max on %s", t)
		}
		r := args[0].(*Term)
		for _, a := range args[1:] {
			at := a.(*Term)
			op := "bvult"
			if signed {
				op = "bvslt"
			}
			var cnd *Term
			if b.Name() == "min" {
				cnd = BVCmp(op, at, r)
			} else {
				cnd = BVCmp(op, r, at)
			}
			r = Ite(cnd, at, r)
		}
		return r
	case "print", "println":
		return nil
	case "close":
		return nil
	case "clear":
		unsupported("clear builtin")
	case "panic":
		return nil
	case "recover":
		return &IfaceV{IntConstI(0), IntConstI(0)}
	case "ssa:wrapnilchk":
		return args[0]
	}
	unsupported("builtin %s", b.Name())
	return nil
}

// appendOp: result is always modelled as a fresh backing array (sound for value semantics as long as
// the old slice is not read afterwards expecting to observe the appended data; noted in evidence).
func (x *Exec) appendOp(fr *Frame, st *State, c *ssa.CallCommon, args []Value) Value {
	s := args[0].(*SliceV)
	st0 := c.Args[0].Type().Underlying().(*types.Slice)
	et := st0.Elem()
	var add *SliceV
	switch v := args[1].(type) {
	case *SliceV:
		add = v
	case *Term:
		// append([]byte, string...)
		if isString(c.Args[1].Type()) {
			n := x.strLen(v)
			base := x.newRef(st, "strbytes")
			add = &SliceV{base, BVConstU(0, 64), n, n}
			st.Assume(BVCmp("bvult", n, bv62))
			x.setElemArray(st, base, et, x.freshSym("strbytes", ArraySort(SBV64, SBV8)))
			sq := x.seqOf(st, add)
			st.Assume(Eq(sq, x.D.Fun("seq_of_str", SSeq, v)))
		} else {
			unsupported("append argument")
		}
	default:
		unsupported("append argument %T", args[1])
	}
	newLen := x.nameTerm(st, BVBin("bvadd", s.Len, add.Len), "applen")
	base := x.newRef(st, "append")
	capv := x.freshSym("appcap", SBV64)
	st.Assume(BVCmp("bvule", newLen, capv))
	st.Assume(BVCmp("bvult", capv, bv62))
	r := &SliceV{base, BVConstU(0, 64), newLen, capv}
	x.note("append modelled as always reallocating (result never aliases its argument)")
	if _, isS := et.Underlying().(*types.Struct); isS {
		x.note("append on []struct: element contents unconstrained")
		return r
	}
	cs := x.compsOf(et)
	for _, cp := range cs {
		name := elemPrefix(et) + cp.suffix
		arr := x.heapArr(st, name, SInt, ArraySort(SBV64, cp.sort))
		srcA := x.heapSelect(st, name, arr, s.Base)
		srcB := x.heapSelect(st, name, arr, add.Base)
		na := x.freshSym("appended", ArraySort(SBV64, cp.sort))
		// pointwise definition: forall i. i < len(s) => na[i] = A[off+i] ; len(s) <= i < newLen => na[i] = B[boff + i - len(s)]
		q := x.freshBound("i", SBV64)
		body := And(
			Implies(BVCmp("bvult", q, s.Len), Eq(Select(na, q), Select(srcA, BVBin("bvadd", s.Off, q)))),
			Implies(And(BVCmp("bvuge", q, s.Len), BVCmp("bvult", q, newLen)), Eq(Select(na, q), Select(srcB, BVBin("bvadd", add.Off, BVBin("bvsub", q, s.Len))))),
		)
		// small constant lengths: expand instead of quantifying
		if s.Len.IsConst && add.Len.IsConst && s.Len.BVal.Int64()+add.Len.BVal.Int64() <= 16 {
			n := s.Len.BVal.Int64() + add.Len.BVal.Int64()
			for i := int64(0); i < n; i++ {
				ic := BVConstU(uint64(i), 64)
				if i < s.Len.BVal.Int64() {
					st.Assume(Eq(Select(na, ic), Select(srcA, BVBin("bvadd", s.Off, ic))))
				} else {
					st.Assume(Eq(Select(na, ic), Select(srcB, BVBin("bvadd", add.Off, BVConstU(uint64(i-s.Len.BVal.Int64()), 64)))))
				}
			}
		} else {
			st.Assume(&Term{S: fmt.Sprintf("(forall ((%s (_ BitVec 64))) %s)", q.S, body.S), Sort: SBool})
		}
		x.heapStoreFwd(st, name, base, na)
	}
	if b, ok := et.Underlying().(*types.Basic); ok && b.Kind() == types.Uint8 {
		// sequence view: seq(r) = cat(seq(s), seq(add))
		sr := x.seqOf(st, r)
		sa := x.seqOfPre(st, s)
		sb := x.seqOfPre(st, add)
		st.Assume(Eq(sr, x.seqCat(st, sa, sb)))
		st.Assume(Eq(x.seqLen(sr), newLen))
	}
	return r
}

func (x *Exec) seqOfPre(st *State, s *SliceV) *Term {
	t := x.seqOf(st, s)
	st.Assume(Eq(x.seqLen(t), s.Len))
	return t
}

func (x *Exec) seqCat(st *State, a, b *Term) *Term {
	r := x.D.Fun("seqcat", SSeq, a, b)
	st.Assume(Eq(x.seqLen(r), BVBin("bvadd", x.seqLen(a), x.seqLen(b))))
	// the empty sequence is the identity of concatenation (instances for these operands)
	z := BVConstU(0, 64)
	st.Assume(Implies(Eq(x.seqLen(a), z), Eq(r, b)))
	st.Assume(Implies(Eq(x.seqLen(b), z), Eq(r, a)))
	x.needSeqAxioms = true
	x.catParts[r.S] = [2]*Term{a, b}
	// associativity instance: a ++ (b1 ++ b2) == (a ++ b1) ++ b2, so that every concatenation has a
	// left-nested normal form whatever the grouping in the code or the contract
	if p, ok := x.catParts[b.S]; ok {
		ln := x.seqCat(st, x.seqCat(st, a, p[0]), p[1])
		st.Assume(Eq(r, ln))
	}
	return r
}

// seqByte is the one-byte sequence.
func (x *Exec) seqByte(st *State, b *Term) *Term {
	t := x.D.Fun("seqbyte", SSeq, b)
	st.Assume(Eq(x.seqLen(t), BVConstU(1, 64)))
	return t
}

func (x *Exec) copyOp(fr *Frame, st *State, c *ssa.CallCommon, args []Value) Value {
	dst := args[0].(*SliceV)
	et := c.Args[0].Type().Underlying().(*types.Slice).Elem()
	var src *SliceV
	switch v := args[1].(type) {
	case *SliceV:
		src = v
	default:
		unsupported("copy from %T", args[1])
	}
	n := x.nameTerm(st, Ite(BVCmp("bvult", dst.Len, src.Len), dst.Len, src.Len), "copyn")
	if _, isS := et.Underlying().(*types.Struct); isS {
		unsupported("copy of []struct")
	}
	cs := x.compsOf(et)
	for _, cp := range cs {
		name := elemPrefix(et) + cp.suffix
		arr := x.heapArr(st, name, SInt, ArraySort(SBV64, cp.sort))
		old := x.heapSelect(st, name, arr, dst.Base)
		srcA := x.heapSelect(st, name, arr, src.Base)
		na := x.freshSym("copied", ArraySort(SBV64, cp.sort))
		q := x.freshBound("i", SBV64)
		inRange := And(BVCmp("bvuge", q, dst.Off), BVCmp("bvult", q, BVBin("bvadd", dst.Off, n)))
		body := And(
			Implies(inRange, Eq(Select(na, q), Select(srcA, BVBin("bvadd", src.Off, BVBin("bvsub", q, dst.Off))))),
			Implies(Not(inRange), Eq(Select(na, q), Select(old, q))),
		)
		st.Assume(&Term{S: fmt.Sprintf("(forall ((%s (_ BitVec 64))) %s)", q.S, body.S), Sort: SBool})
		if dst.Len.IsConst && dst.Len.BVal.Int64() <= 64 {
			// small fixed-size destination (hash-sized arrays): spell the instances out
			for i := int64(0); i < dst.Len.BVal.Int64(); i++ {
				ic := BVConstU(uint64(i), 64)
				at := BVBin("bvadd", dst.Off, ic)
				st.Assume(Eq(Select(na, at), Ite(BVCmp("bvult", ic, n), Select(srcA, BVBin("bvadd", src.Off, ic)), Select(old, at))))
			}
		}
		x.heapStoreFwd(st, name, dst.Base, na)
	}
	if b, ok := et.Underlying().(*types.Basic); ok && b.Kind() == types.Uint8 {
		// when the whole destination is overwritten by the whole source the sequences coincide
		full := And(Eq(dst.Len, n), Eq(src.Len, n))
		sd := x.seqOf(st, dst)
		// src sequence as of before the copy is the same array unless aliased; use current (post) view of src when bases differ
		ss := x.seqOf(st, src)
		st.Assume(Implies(And(full, Neq(dst.Base, src.Base)), Eq(sd, ss)))
		st.Assume(Eq(x.seqLen(sd), dst.Len))
	}
	return n
}

// ---------- math/big ----------

func (x *Exec) bigVal(st *State, ref *Term) *Term {
	arr := x.heapArr(st, "BigVal", SInt, SInt)
	return x.heapSelect(st, "BigVal", arr, ref)
}

func (x *Exec) setBigVal(st *State, ref, v *Term) {
	x.heapArr(st, "BigVal", SInt, SInt)
	x.heapStoreFwd(st, "BigVal", ref, v)
	fresh := false
	for _, a := range st.allocs {
		if a.S == ref.S {
			fresh = true
			break
		}
	}
	if !fresh {
		// a big integer that existed at entry (or whose origin is unknown) was mutated
		x.bumpEpoch(st)
	}
}

func (x *Exec) bigIntrinsic(fr *Frame, st *State, key string, c *ssa.CallCommon, args []Value) (Value, bool) {
	name := strings.TrimPrefix(key, "math/big.")
	ref := func(i int) *Term { return args[i].(*PtrV).Ref }
	bigT := func() types.Type { return c.Signature().Results().At(0).Type().(*types.Pointer).Elem() }
	switch name {
	case "NewInt":
		r := x.newRef(st, "big")
		x.setBigVal(st, r, BV2IntSigned(args[0].(*Term)))
		return &PtrV{Ref: r, Elem: bigT()}, true
	case "(*Int).SetUint64":
		x.setBigVal(st, ref(0), BV2Nat(args[1].(*Term)))
		return args[0], true
	case "(*Int).SetInt64":
		x.setBigVal(st, ref(0), BV2IntSigned(args[1].(*Term)))
		return args[0], true
	case "(*Int).Set":
		x.setBigVal(st, ref(0), x.bigVal(st, ref(1)))
		return args[0], true
	case "(*Int).Add":
		x.setBigVal(st, ref(0), IntBin("+", x.bigVal(st, ref(1)), x.bigVal(st, ref(2))))
		return args[0], true
	case "(*Int).Sub":
		x.setBigVal(st, ref(0), IntBin("-", x.bigVal(st, ref(1)), x.bigVal(st, ref(2))))
		return args[0], true
	case "(*Int).Mul":
		x.setBigVal(st, ref(0), IntBin("*", x.bigVal(st, ref(1)), x.bigVal(st, ref(2))))
		return args[0], true
	case "(*Int).Neg":
		x.setBigVal(st, ref(0), IntBin("-", IntConstI(0), x.bigVal(st, ref(1))))
		return args[0], true
	case "(*Int).Abs":
		v := x.bigVal(st, ref(1))
		x.setBigVal(st, ref(0), Ite(IntCmp("<", v, IntConstI(0)), IntBin("-", IntConstI(0), v), v))
		return args[0], true
	case "(*Int).Div", "(*Int).Quo":
		a, b := x.bigVal(st, ref(1)), x.bigVal(st, ref(2))
		nz := Neq(b, IntConstI(0))
		x.emitSafe(fr, st, "div", nz, c.Pos())
		st.Assume(nz)
		var q *Term
		if name == "(*Int).Div" {
			q = App("div", SInt, a, b) // Euclidean, as SMT-LIB div
		} else {
			// truncated division
			aa := Ite(IntCmp("<", a, IntConstI(0)), IntBin("-", IntConstI(0), a), a)
			ab := Ite(IntCmp("<", b, IntConstI(0)), IntBin("-", IntConstI(0), b), b)
			mag := App("div", SInt, aa, ab)
			neg := Neq(IntCmp("<", a, IntConstI(0)), IntCmp("<", b, IntConstI(0)))
			q = Ite(neg, IntBin("-", IntConstI(0), mag), mag)
		}
		x.setBigVal(st, ref(0), q)
		return args[0], true
	case "(*Int).Cmp":
		a, b := x.bigVal(st, ref(0)), x.bigVal(st, ref(1))
		return Ite(IntCmp("<", a, b), BVConst(bigInt(-1), 64), Ite(IntCmp(">", a, b), BVConstU(1, 64), BVConstU(0, 64))), true
	case "(*Int).Sign":
		a := x.bigVal(st, ref(0))
		return Ite(IntCmp("<", a, IntConstI(0)), BVConst(bigInt(-1), 64), Ite(IntCmp(">", a, IntConstI(0)), BVConstU(1, 64), BVConstU(0, 64))), true
	case "(*Int).IsUint64":
		a := x.bigVal(st, ref(0))
		max := new(big.Int).Lsh(big.NewInt(1), 64)
		return And(IntCmp(">=", a, IntConstI(0)), IntCmp("<", a, IntConst(max))), true
	case "(*Int).IsInt64":
		a := x.bigVal(st, ref(0))
		lim := new(big.Int).Lsh(big.NewInt(1), 63)
		return And(IntCmp(">=", a, IntConst(new(big.Int).Neg(lim))), IntCmp("<", a, IntConst(lim))), true
	case "(*Int).Uint64":
		a := x.bigVal(st, ref(0))
		r := x.freshSym("big.u64", SBV64)
		max := new(big.Int).Lsh(big.NewInt(1), 64)
		st.Assume(Implies(And(IntCmp(">=", a, IntConstI(0)), IntCmp("<", a, IntConst(max))), Eq(BV2Nat(r), a)))
		return r, true
	case "(*Int).Int64":
		a := x.bigVal(st, ref(0))
		r := x.freshSym("big.i64", SBV64)
		lim := new(big.Int).Lsh(big.NewInt(1), 63)
		st.Assume(Implies(And(IntCmp(">=", a, IntConst(new(big.Int).Neg(lim))), IntCmp("<", a, IntConst(lim))), Eq(BV2IntSigned(r), a)))
		return r, true
	case "(*Int).String", "(*Int).Text":
		return x.freshSym("big.str", SStr), true
	case "(*Int).BitLen":
		r := x.freshSym("big.bitlen", SBV64)
		st.Assume(BVCmp("bvult", r, bv62))
		return r, true
	case "(*Int).SetBytes":
		s := args[1].(*SliceV)
		sq := x.seqOfPre(st, s)
		v := x.D.Fun("natOfSeq", SInt, sq)
		st.Assume(IntCmp(">=", v, IntConstI(0)))
		x.setBigVal(st, ref(0), v)
		return args[0], true
	}
	return nil, false
}
