package main

// Evaluation of contract expressions against a symbolic state.

import (
	"fmt"
	"go/token"
	"go/types"
	"math/big"
	"sort"
	"strings"

	"golang.org/x/tools/go/ssa"
)

// TV: typed value. T is the Go type when there is one; otherwise Kind tells the spec sort.
type TV struct {
	V Value
	T types.Type
}

// spec-only kinds are carried in a wrapper
type SpecVal struct {
	Kind   string // "int" (math Int), "ubv", "sbv", "seq", "const", "bool", "tag"
	T      *Term
	C      *big.Int // untyped constant
	Signed bool
}

type SpecError struct{ Msg string }

func (e *SpecError) Error() string { return "spec: " + e.Msg }

func specFail(f string, a ...any) { panic(&SpecError{fmt.Sprintf(f, a...)}) }

type lazyDeref struct {
	ptr Value
	t   types.Type
}

type SpecEnv struct {
	x     *Exec
	fr    *Frame
	st    *State
	old   *State
	names map[string]TV
	lazy  map[string]lazyDeref
	pkg   *ssa.Package
	inOld bool
	// noUnfold: inside the unfolding of a recursive spec function, inner applications stay folded
	noUnfold bool
	// freshBase: number of allocations of the function under verification that precede the call whose
	// postcondition is being applied (0 when the contract is that of the function itself): fresh(x)
	freshBase int
}

func (x *Exec) newSpecEnv(fr *Frame, st, old *State) *SpecEnv {
	env := &SpecEnv{x: x, fr: fr, st: st, old: old, names: map[string]TV{}, lazy: map[string]lazyDeref{}}
	if fr != nil {
		env.pkg = fr.fn.Pkg
		if env.pkg == nil && fr.fn.Origin() != nil {
			env.pkg = fr.fn.Origin().Pkg
		}
		if env.pkg == nil && fr.fn.Parent() != nil {
			env.pkg = fr.fn.Parent().Pkg
		}
	}
	return env
}

func (e *SpecEnv) bind(name string, tv TV) { e.names[name] = tv }
func (e *SpecEnv) bindLazyDeref(name string, ptr Value, ptrType types.Type) {
	e.lazy[name] = lazyDeref{ptr, ptrType}
}

func (e *SpecEnv) typesPkg() *types.Package {
	if e.pkg != nil {
		return e.pkg.Pkg
	}
	return nil
}

func (x *Exec) specBool(env *SpecEnv, e Expr) *Term {
	tv := x.evalSpec(env, e)
	t, ok := tv.V.(*Term)
	if ok && t.Sort.K == KBool {
		return t
	}
	if sv, ok := tv.V.(*SpecVal); ok && sv.T != nil && sv.T.Sort.K == KBool {
		return sv.T
	}
	specFail("expression %s is not boolean", e.exprString())
	return nil
}

// specInt evaluates to a mathematical integer.
func (x *Exec) specInt(env *SpecEnv, e Expr) *Term {
	tv := x.evalSpec(env, e)
	return x.toMathInt(tv)
}

func (x *Exec) toMathInt(tv TV) *Term {
	switch v := tv.V.(type) {
	case *SpecVal:
		switch v.Kind {
		case "int":
			return v.T
		case "const":
			return IntConst(v.C)
		case "ubv":
			return BV2Nat(v.T)
		case "sbv":
			return BV2IntSigned(v.T)
		}
	case *Term:
		if _, signed, ok := intInfo(tv.T); ok {
			if signed {
				return BV2IntSigned(v)
			}
			return BV2Nat(v)
		}
	}
	specFail("cannot convert to Int")
	return nil
}

// specMeasure evaluates a termination measure: a bit-vector (with signedness) or an Int.
func (x *Exec) specMeasure(env *SpecEnv, e Expr) (*Term, bool) {
	tv := x.evalSpec(env, e)
	if c, ok := isConstTV(tv); ok {
		return IntConst(c), true
	}
	ni, ok := x.numOf(tv)
	if !ok {
		specFail("decreases: not numeric")
	}
	return ni.t, ni.signed
}

// specTerm evaluates to a single SMT term (scalar).
func (x *Exec) specTerm(env *SpecEnv, e Expr) *Term {
	tv := x.evalSpec(env, e)
	switch v := tv.V.(type) {
	case *Term:
		return v
	case *SpecVal:
		if v.Kind == "const" {
			return BVConst(v.C, 64)
		}
		return v.T
	}
	specFail("expression %s is not scalar", e.exprString())
	return nil
}

func mkSpecInt(t *Term) TV { return TV{V: &SpecVal{Kind: "int", T: t}} }
func mkSpecBool(t *Term) TV {
	return TV{V: t, T: types.Typ[types.Bool]}
}

func (x *Exec) evalSpec(env *SpecEnv, e Expr) TV {
	switch n := e.(type) {
	case *EInt:
		return TV{V: &SpecVal{Kind: "const", C: n.Val}}
	case *EBool:
		return mkSpecBool(BoolConst(n.Val))
	case *EString:
		return TV{V: x.strConst(n.Val), T: types.Typ[types.String]}
	case *ENil:
		return TV{V: &SpecVal{Kind: "nil"}}
	case *EIdent:
		return x.specIdent(env, n.Name)
	case *EUnary:
		return x.specUnary(env, n)
	case *EBinary:
		return x.specBinary(env, n)
	case *ECall:
		return x.specCall(env, n)
	case *ESel:
		return x.specSel(env, n)
	case *EIndex:
		return x.specIndex(env, n)
	case *ESlice:
		return x.specSlice(env, n)
	case *EQuant:
		return x.specQuant(env, n)
	case *ETypeArg:
		t := x.P.LookupType(env.typesPkg(), n.Type)
		if t == nil {
			specFail("unknown type %s", n.Type)
		}
		return TV{V: &SpecVal{Kind: "tag", T: x.tagOf(t)}}
	}
	specFail("unsupported expression %T", e)
	return TV{}
}

func (e *SpecEnv) state() *State {
	if e.inOld && e.old != nil {
		return e.old
	}
	return e.st
}

func (x *Exec) specIdent(env *SpecEnv, name string) TV {
	if tv, ok := env.names[name]; ok {
		return tv
	}
	if ld, ok := env.lazy[name]; ok {
		p := ld.ptr.(*PtrV)
		return TV{x.Load(env.state(), p), p.Elem}
	}
	// package-level constants and variables
	if pkg := env.typesPkg(); pkg != nil {
		if obj := pkg.Scope().Lookup(name); obj != nil {
			switch o := obj.(type) {
			case *types.Const:
				if w, _, ok := intInfo(o.Type()); ok {
					v, _ := new(big.Int).SetString(o.Val().ExactString(), 10)
					if b, isB := o.Type().Underlying().(*types.Basic); isB && b.Info()&types.IsUntyped != 0 {
						return TV{V: &SpecVal{Kind: "const", C: v}}
					}
					return TV{V: BVConst(v, w), T: o.Type()}
				}
			case *types.Var:
				if env.pkg != nil {
					if g, ok := env.pkg.Members[name].(*ssa.Global); ok {
						p := x.globalPtr(g)
						return TV{x.Load(env.state(), p), p.Elem}
					}
				}
			}
		}
	}
	// synthetic package members (init$guard)
	if env.pkg != nil && strings.Contains(name, "$") {
		if g, ok := env.pkg.Members[name].(*ssa.Global); ok {
			p := x.globalPtr(g)
			return TV{x.Load(env.state(), p), p.Elem}
		}
	}
	specFail("unknown identifier %q", name)
	return TV{}
}

func isConstTV(tv TV) (*big.Int, bool) {
	if sv, ok := tv.V.(*SpecVal); ok && sv.Kind == "const" {
		return sv.C, true
	}
	return nil, false
}

// numeric kinds for binary ops
type numInfo struct {
	kind   string // "bv", "int"
	w      int
	signed bool
	t      *Term
	gt     types.Type
}

func (x *Exec) numOf(tv TV) (numInfo, bool) {
	switch v := tv.V.(type) {
	case *Term:
		if w, s, ok := intInfo(tv.T); ok && v.Sort.K == KBV {
			return numInfo{"bv", w, s, v, tv.T}, true
		}
		if tv.T != nil && v.Sort.K == KBV {
			// byte arrays etc: treat as unsigned
			return numInfo{"bv", v.Sort.W, false, v, tv.T}, true
		}
	case *SpecVal:
		switch v.Kind {
		case "int":
			return numInfo{kind: "int", t: v.T}, true
		case "ubv":
			return numInfo{kind: "bv", w: v.T.Sort.W, signed: false, t: v.T}, true
		case "sbv":
			return numInfo{kind: "bv", w: v.T.Sort.W, signed: true, t: v.T}, true
		}
	}
	return numInfo{}, false
}

func numTV(n numInfo) TV {
	if n.kind == "int" {
		return mkSpecInt(n.t)
	}
	if n.gt != nil {
		return TV{V: n.t, T: n.gt}
	}
	k := "ubv"
	if n.signed {
		k = "sbv"
	}
	return TV{V: &SpecVal{Kind: k, T: n.t}}
}

// unifyNum brings two numeric operands to a common representation.
func (x *Exec) unifyNum(a, b TV, what string) (numInfo, numInfo) {
	ca, aConst := isConstTV(a)
	cb, bConst := isConstTV(b)
	if aConst && bConst {
		return numInfo{kind: "int", t: IntConst(ca)}, numInfo{kind: "int", t: IntConst(cb)}
	}
	na, okA := x.numOf(a)
	nb, okB := x.numOf(b)
	if aConst {
		if !okB {
			specFail("%s: non-numeric operand", what)
		}
		if nb.kind == "int" {
			return numInfo{kind: "int", t: IntConst(ca)}, nb
		}
		return numInfo{"bv", nb.w, nb.signed, BVConst(ca, nb.w), nb.gt}, nb
	}
	if bConst {
		if !okA {
			specFail("%s: non-numeric operand", what)
		}
		if na.kind == "int" {
			return na, numInfo{kind: "int", t: IntConst(cb)}
		}
		return na, numInfo{"bv", na.w, na.signed, BVConst(cb, na.w), na.gt}
	}
	if !okA || !okB {
		specFail("%s: non-numeric operand", what)
	}
	if na.kind == "int" && nb.kind == "bv" {
		nb = numInfo{kind: "int", t: x.toMathInt(numTV(nb))}
	} else if na.kind == "bv" && nb.kind == "int" {
		na = numInfo{kind: "int", t: x.toMathInt(numTV(na))}
	} else if na.kind == "bv" && nb.kind == "bv" {
		if na.w != nb.w {
			specFail("%s: width mismatch %d vs %d (use an explicit widening cast)", what, na.w, nb.w)
		}
		if na.signed != nb.signed {
			specFail("%s: signedness mismatch (use an explicit cast)", what)
		}
	}
	return na, nb
}

func (x *Exec) specUnary(env *SpecEnv, n *EUnary) TV {
	switch n.Op {
	case "!":
		return mkSpecBool(Not(x.specBool(env, n.X)))
	case "-":
		tv := x.evalSpec(env, n.X)
		if c, ok := isConstTV(tv); ok {
			return TV{V: &SpecVal{Kind: "const", C: new(big.Int).Neg(c)}}
		}
		ni, ok := x.numOf(tv)
		if !ok {
			specFail("unary minus on non-number")
		}
		if ni.kind == "int" {
			return mkSpecInt(IntBin("-", IntConstI(0), ni.t))
		}
		ni.t = BVNeg(ni.t)
		return numTV(ni)
	case "^":
		tv := x.evalSpec(env, n.X)
		ni, ok := x.numOf(tv)
		if !ok || ni.kind != "bv" {
			specFail("^ on non-bitvector")
		}
		ni.t = BVNot(ni.t)
		return numTV(ni)
	case "*":
		tv := x.evalSpec(env, n.X)
		p, ok := tv.V.(*PtrV)
		if !ok {
			specFail("dereference of non-pointer")
		}
		return TV{x.Load(env.state(), p), p.Elem}
	case "&":
		loc := x.evalSpecLoc(env, n.X)
		if loc == nil {
			specFail("& of something that is not a location: %s", n.X.exprString())
		}
		return TV{loc, types.NewPointer(loc.Elem)}
	}
	specFail("unary %s", n.Op)
	return TV{}
}

func (x *Exec) specBinary(env *SpecEnv, n *EBinary) TV {
	switch n.Op {
	case "&&":
		l := x.specBool(env, n.X)
		if l.IsConst && !l.BoolVal {
			return mkSpecBool(TFalse) // short-circuit: the right operand may be undefined here
		}
		return mkSpecBool(And(l, x.specBool(env, n.Y)))
	case "||":
		l := x.specBool(env, n.X)
		if l.IsConst && l.BoolVal {
			return mkSpecBool(TTrue)
		}
		return mkSpecBool(Or(l, x.specBool(env, n.Y)))
	case "==>":
		l := x.specBool(env, n.X)
		if l.IsConst && !l.BoolVal {
			return mkSpecBool(TTrue)
		}
		return mkSpecBool(Implies(l, x.specBool(env, n.Y)))
	case "<==>":
		return mkSpecBool(Eq(x.specBool(env, n.X), x.specBool(env, n.Y)))
	case "in":
		k := x.evalSpec(env, n.X)
		m := x.evalSpec(env, n.Y)
		mt, ok := m.T.Underlying().(*types.Map)
		if !ok {
			specFail("'in' needs a map")
		}
		_, present := x.mapGet(env.state(), m.V.(*Term), mt, x.coerceTo(k, mt.Key()).V)
		return mkSpecBool(present)
	case "==", "!=":
		a := x.evalSpec(env, n.X)
		b := x.evalSpec(env, n.Y)
		eq := x.specEq(env, a, b)
		if n.Op == "!=" {
			eq = Not(eq)
		}
		return mkSpecBool(eq)
	}
	a := x.evalSpec(env, n.X)
	b := x.evalSpec(env, n.Y)
	// constant folding on untyped constants
	if ca, ok := isConstTV(a); ok {
		if cb, ok := isConstTV(b); ok {
			r := new(big.Int)
			switch n.Op {
			case "+":
				return TV{V: &SpecVal{Kind: "const", C: r.Add(ca, cb)}}
			case "-":
				return TV{V: &SpecVal{Kind: "const", C: r.Sub(ca, cb)}}
			case "*":
				return TV{V: &SpecVal{Kind: "const", C: r.Mul(ca, cb)}}
			case "<<":
				return TV{V: &SpecVal{Kind: "const", C: r.Lsh(ca, uint(cb.Uint64()))}}
			case ">>":
				return TV{V: &SpecVal{Kind: "const", C: r.Rsh(ca, uint(cb.Uint64()))}}
			case "/":
				return TV{V: &SpecVal{Kind: "const", C: r.Quo(ca, cb)}}
			case "%":
				return TV{V: &SpecVal{Kind: "const", C: r.Rem(ca, cb)}}
			case "<":
				return mkSpecBool(BoolConst(ca.Cmp(cb) < 0))
			case "<=":
				return mkSpecBool(BoolConst(ca.Cmp(cb) <= 0))
			case ">":
				return mkSpecBool(BoolConst(ca.Cmp(cb) > 0))
			case ">=":
				return mkSpecBool(BoolConst(ca.Cmp(cb) >= 0))
			}
		}
	}
	if n.Op == "<<" || n.Op == ">>" {
		na, ok := x.numOf(a)
		if !ok || na.kind != "bv" {
			specFail("shift of non-bitvector")
		}
		var amt *Term
		if cb, ok := isConstTV(b); ok {
			amt = BVConst(cb, na.w)
		} else {
			nb, ok := x.numOf(b)
			if !ok || nb.kind != "bv" {
				specFail("shift count")
			}
			amt = Resize(nb.t, na.w, false)
			if nb.w > na.w {
				specFail("shift count wider than operand")
			}
		}
		switch {
		case n.Op == "<<":
			na.t = BVBin("bvshl", na.t, amt)
		case na.signed:
			na.t = App("bvashr", na.t.Sort, na.t, amt)
		default:
			na.t = BVBin("bvlshr", na.t, amt)
		}
		return numTV(na)
	}
	// floating point comparisons and arithmetic
	if fa, ok := a.V.(*Term); ok && fa.Sort.K == KFP64 {
		if fb, ok := b.V.(*Term); ok && fb.Sort.K == KFP64 {
			tok := map[string]token.Token{"<": token.LSS, "<=": token.LEQ, ">": token.GTR, ">=": token.GEQ, "+": token.ADD, "-": token.SUB, "*": token.MUL, "/": token.QUO}[n.Op]
			r := x.fpBinop(tok, fa, fb).(*Term)
			if r.Sort.K == KBool {
				return mkSpecBool(r)
			}
			return TV{r, types.Typ[types.Float64]}
		}
	}
	na, nb := x.unifyNum(a, b, n.Op)
	if na.kind == "int" {
		switch n.Op {
		case "+", "-", "*":
			return mkSpecInt(IntBin(n.Op, na.t, nb.t))
		case "/":
			return mkSpecInt(App("div", SInt, na.t, nb.t))
		case "%":
			return mkSpecInt(App("mod", SInt, na.t, nb.t))
		case "<", "<=", ">", ">=":
			return mkSpecBool(IntCmp(n.Op, na.t, nb.t))
		}
		specFail("operator %s on Int", n.Op)
	}
	res := na
	switch n.Op {
	case "+":
		res.t = BVBin("bvadd", na.t, nb.t)
	case "-":
		res.t = BVBin("bvsub", na.t, nb.t)
	case "*":
		res.t = BVBin("bvmul", na.t, nb.t)
	case "/":
		if na.signed {
			res.t = BVBin("bvsdiv", na.t, nb.t)
		} else {
			res.t = BVBin("bvudiv", na.t, nb.t)
		}
	case "%":
		if na.signed {
			res.t = BVBin("bvsrem", na.t, nb.t)
		} else {
			res.t = BVBin("bvurem", na.t, nb.t)
		}
	case "&":
		res.t = BVBin("bvand", na.t, nb.t)
	case "|":
		res.t = BVBin("bvor", na.t, nb.t)
	case "^":
		res.t = BVBin("bvxor", na.t, nb.t)
	case "&^":
		res.t = BVBin("bvand", na.t, BVNot(nb.t))
	case "<", "<=", ">", ">=":
		pfx := "bvu"
		if na.signed {
			pfx = "bvs"
		}
		m := map[string]string{"<": "lt", "<=": "le", ">": "gt", ">=": "ge"}
		return mkSpecBool(BVCmp(pfx+m[n.Op], na.t, nb.t))
	default:
		specFail("operator %s", n.Op)
	}
	return numTV(res)
}

func (x *Exec) coerceTo(tv TV, t types.Type) TV {
	if c, ok := isConstTV(tv); ok {
		if w, _, ok := intInfo(t); ok {
			return TV{BVConst(c, w), t}
		}
	}
	return tv
}

func (x *Exec) specEq(env *SpecEnv, a, b TV) *Term {
	// nil comparisons
	if sv, ok := a.V.(*SpecVal); ok && sv.Kind == "nil" {
		a, b = b, a
	}
	if sv, ok := b.V.(*SpecVal); ok && sv.Kind == "nil" {
		switch v := a.V.(type) {
		case *IfaceV:
			return Eq(v.Tag, IntConstI(0))
		case *PtrV:
			return Eq(v.Ref, IntConstI(0))
		case *SliceV:
			return Eq(v.Base, IntConstI(0))
		case *Term:
			if v.Sort.K == KInt {
				return Eq(v, IntConstI(0))
			}
		case *FuncV:
			if v.Fn != nil {
				return TFalse
			}
			return Eq(v.Sym, IntConstI(0))
		}
		specFail("comparison with nil of %T", a.V)
	}
	switch av := a.V.(type) {
	case *IfaceV:
		bv, ok := b.V.(*IfaceV)
		if !ok {
			specFail("interface compared with %T", b.V)
		}
		return And(Eq(av.Tag, bv.Tag), Eq(av.Ref, bv.Ref))
	case *PtrV:
		if bs, ok := b.V.(*StructV); ok {
			if _, isS := av.Elem.Underlying().(*types.Struct); isS {
				return x.structEq(x.Load(env.state(), av).(*StructV), bs)
			}
		}
		bv, ok := b.V.(*PtrV)
		if !ok {
			specFail("pointer compared with %T", b.V)
		}
		return Eq(av.Ref, bv.Ref)
	case *SliceV:
		// slice identity
		bv, ok := b.V.(*SliceV)
		if !ok {
			specFail("slice compared with %T", b.V)
		}
		return And(Eq(av.Base, bv.Base), Eq(av.Off, bv.Off), Eq(av.Len, bv.Len))
	case *StructV:
		if bp, ok := b.V.(*PtrV); ok {
			// a struct-typed field selected lazily (pointer to the embedded struct): compare values
			if _, isS := bp.Elem.Underlying().(*types.Struct); isS {
				return x.structEq(av, x.Load(env.state(), bp).(*StructV))
			}
		}
		return x.structEq(av, b.V.(*StructV))
	}
	if ap, ok := a.V.(*PtrV); ok {
		if bs, ok := b.V.(*StructV); ok {
			if _, isS := ap.Elem.Underlying().(*types.Struct); isS {
				return x.structEq(x.Load(env.state(), ap).(*StructV), bs)
			}
		}
	}
	// booleans / strings / tags / seqs
	if at, ok := a.V.(*Term); ok && at.Sort.K != KBV {
		switch bv := b.V.(type) {
		case *Term:
			return Eq(at, bv)
		case *SpecVal:
			if bv.T != nil {
				return Eq(at, bv.T)
			}
		}
	}
	if as, ok := a.V.(*SpecVal); ok && (as.Kind == "seq" || as.Kind == "tag" || as.Kind == "bool" || as.Kind == "other") {
		switch bv := b.V.(type) {
		case *SpecVal:
			return Eq(as.T, bv.T)
		case *Term:
			return Eq(as.T, bv)
		}
	}
	if bs, ok := b.V.(*SpecVal); ok && (bs.Kind == "seq" || bs.Kind == "tag" || bs.Kind == "other") {
		if at, ok := a.V.(*Term); ok {
			return Eq(at, bs.T)
		}
	}
	na, nb := x.unifyNum(a, b, "==")
	return Eq(na.t, nb.t)
}

func (x *Exec) specSel(env *SpecEnv, n *ESel) TV {
	// qualified identifier pkg.Name ?
	if id, ok := n.X.(*EIdent); ok {
		if _, bound := env.names[id.Name]; !bound {
			if _, lz := env.lazy[id.Name]; !lz {
				if tv, ok := x.specQualified(env, id.Name, n.Sel); ok {
					return tv
				}
			}
		}
	}
	if ix, ok := n.X.(*EIndex); ok {
		// s[i].f on a slice of structs: read only the selected field instead of the whole element
		if p := x.structElemLoc(env, ix); p != nil {
			return x.selectField(env, TV{p, types.NewPointer(p.Elem)}, n.Sel)
		}
	}
	if c, ok := n.X.(*ECall); ok {
		if csel, ok := c.Fun.(*ESel); ok {
			// recv.M(args).f : state the representation facts of the selected field only
			prevSel := x.rawSel
			x.rawSel, x.rawDone = csel, false
			base := x.evalSpec(env, n.X)
			x.rawSel = prevSel
			if x.rawDone {
				x.rawDone = false
				if sv, ok := base.V.(*StructV); ok {
					if idx, f := findField(sv.T, n.Sel); idx >= 0 {
						x.assumeTypeInv(env.state(), f.Type(), sv.Fields[idx])
						x.markOld(env.state(), f.Type(), sv.Fields[idx])
						return TV{sv.Fields[idx], f.Type()}
					}
				}
				// promoted field or unexpected shape: fall back to the facts of the whole value
				x.assumeTypeInv(env.state(), base.T, base.V)
				x.markOld(env.state(), base.T, base.V)
			}
			return x.selectField(env, base, n.Sel)
		}
	}
	base := x.evalSpec(env, n.X)
	return x.selectField(env, base, n.Sel)
}

// structElemLoc returns the location of s[i] when s is a slice of structs (nil otherwise).
func (x *Exec) structElemLoc(env *SpecEnv, n *EIndex) *PtrV {
	base := x.evalSpec(env, n.X)
	s, ok := base.V.(*SliceV)
	if !ok || base.T == nil {
		return nil
	}
	sl, ok := base.T.Underlying().(*types.Slice)
	if !ok {
		return nil
	}
	if _, isS := sl.Elem().Underlying().(*types.Struct); !isS {
		return nil
	}
	i := x.specIndexTerm(env, n.I)
	return &PtrV{Ref: x.elemRefSt(env.state(), s.Base, BVBin("bvadd", s.Off, i)), Elem: sl.Elem()}
}

func (x *Exec) specQualified(env *SpecEnv, pkgName, name string) (TV, bool) {
	pkg := env.typesPkg()
	if pkg == nil {
		return TV{}, false
	}
	for _, imp := range pkg.Imports() {
		if imp.Name() == pkgName {
			obj := imp.Scope().Lookup(name)
			if c, ok := obj.(*types.Const); ok {
				if w, _, ok := intInfo(c.Type()); ok {
					v, _ := new(big.Int).SetString(c.Val().ExactString(), 10)
					if b, isB := c.Type().Underlying().(*types.Basic); isB && b.Info()&types.IsUntyped != 0 {
						return TV{V: &SpecVal{Kind: "const", C: v}}, true
					}
					return TV{V: BVConst(v, w), T: c.Type()}, true
				}
			}
			if _, ok := obj.(*types.Var); ok {
				if sp := x.P.Package(imp.Path()); sp != nil {
					if g, ok := sp.Members[name].(*ssa.Global); ok {
						p := x.globalPtr(g)
						return TV{x.Load(env.state(), p), p.Elem}, true
					}
				}
			}
		}
	}
	return TV{}, false
}

func (x *Exec) selectField(env *SpecEnv, base TV, sel string) TV {
	st := env.state()
	switch v := base.V.(type) {
	case *PtrV:
		u, ok := v.Elem.Underlying().(*types.Struct)
		if !ok {
			specFail("field %s of pointer to non-struct %s", sel, v.Elem)
		}
		idx, f := findField(u, sel)
		if idx < 0 {
			// promoted through embedded fields (any depth)
			for i := 0; i < u.NumFields(); i++ {
				if u.Field(i).Embedded() {
					if es, isS := u.Field(i).Type().Underlying().(*types.Struct); isS && hasFieldDeep(es, sel, 0) {
						inner := x.fieldAddr(st, v, i)
						return x.selectField(env, TV{inner, types.NewPointer(u.Field(i).Type())}, sel)
					}
				}
			}
			specFail("no field %s in %s", sel, v.Elem)
		}
		fp := x.fieldAddr(st, v, idx)
		if _, isS := f.Type().Underlying().(*types.Struct); isS {
			// keep as pointer to embedded struct so further selection works lazily
			lp := *fp
			lp.LazyStruct = true
			return TV{&lp, types.NewPointer(f.Type())}
		}
		return TV{x.Load(st, fp), f.Type()}
	case *StructV:
		idx, f := findField(v.T, sel)
		if idx < 0 {
			for i := 0; i < v.T.NumFields(); i++ {
				if v.T.Field(i).Embedded() {
					if sv, ok := v.Fields[i].(*StructV); ok {
						if hasFieldDeep(sv.T, sel, 0) {
							return x.selectField(env, TV{sv, v.T.Field(i).Type()}, sel)
						}
					}
				}
			}
			specFail("no field %s", sel)
		}
		return TV{v.Fields[idx], f.Type()}
	}
	specFail("selector .%s on %T", sel, base.V)
	return TV{}
}

func findField(u *types.Struct, name string) (int, *types.Var) {
	for i := 0; i < u.NumFields(); i++ {
		if u.Field(i).Name() == name {
			return i, u.Field(i)
		}
	}
	return -1, nil
}

// evalSpecLoc evaluates an expression denoting a memory location.
func (x *Exec) evalSpecLoc(env *SpecEnv, e Expr) *PtrV {
	switch n := e.(type) {
	case *ESel:
		base := x.evalSpec(env, n.X)
		p, ok := base.V.(*PtrV)
		if !ok {
			return nil
		}
		u, ok := p.Elem.Underlying().(*types.Struct)
		if !ok {
			return nil
		}
		idx, _ := findField(u, n.Sel)
		if idx < 0 {
			return nil
		}
		return x.fieldAddr(env.state(), p, idx)
	case *EUnary:
		if n.Op == "*" {
			tv := x.evalSpec(env, n.X)
			if p, ok := tv.V.(*PtrV); ok {
				return p
			}
		}
	case *EIndex:
		base := x.evalSpec(env, n.X)
		if s, ok := base.V.(*SliceV); ok {
			et := base.T.Underlying().(*types.Slice).Elem()
			i := x.specIndexTerm(env, n.I)
			if _, isS := et.Underlying().(*types.Struct); isS {
				return &PtrV{Ref: x.elemRefSt(env.state(), s.Base, BVBin("bvadd", s.Off, i)), Elem: et}
			}
			return &PtrV{Ref: s.Base, Idx: BVBin("bvadd", s.Off, i), SlEl: true, Elem: et}
		}
	case *EIdent:
		if ld, ok := env.lazy[n.Name]; ok {
			return ld.ptr.(*PtrV)
		}
	}
	return nil
}

func (x *Exec) specIndexTerm(env *SpecEnv, e Expr) *Term {
	tv := x.evalSpec(env, e)
	if c, ok := isConstTV(tv); ok {
		return BVConst(c, 64)
	}
	ni, ok := x.numOf(tv)
	if !ok {
		specFail("index is not numeric")
	}
	if ni.kind == "int" {
		specFail("index must be a machine integer")
	}
	return Resize(ni.t, 64, ni.signed)
}

func (x *Exec) specIndex(env *SpecEnv, n *EIndex) TV {
	base := x.evalSpec(env, n.X)
	st := env.state()
	switch v := base.V.(type) {
	case *SliceV:
		et := base.T.Underlying().(*types.Slice).Elem()
		i := x.specIndexTerm(env, n.I)
		return TV{x.loadElem(st, v.Base, BVBin("bvadd", v.Off, i), et), et}
	case *Term:
		if base.T != nil {
			if mt, ok := base.T.Underlying().(*types.Map); ok {
				k := x.coerceTo(x.evalSpec(env, n.I), mt.Key())
				val, _ := x.mapGet(st, v, mt, k.V)
				return TV{val, mt.Elem()}
			}
			if nb := byteArrayLen(base.T); nb > 0 {
				i := x.specIndexTerm(env, n.I)
				return TV{byteOfArray(v, i), types.Typ[types.Uint8]}
			}
			if isString(base.T) {
				i := x.specIndexTerm(env, n.I)
				return TV{x.D.Fun("strat", SBV8, v, i), types.Typ[types.Uint8]}
			}
		}
		if v.Sort.K == KArray {
			i := x.evalSpec(env, n.I)
			var it *Term
			if c, ok := isConstTV(i); ok {
				if v.Sort.Idx.K == KInt {
					it = IntConst(c)
				} else {
					it = BVConst(c, v.Sort.Idx.W)
				}
			} else if ni, ok := x.numOf(i); ok {
				it = ni.t
			} else if t, ok := i.V.(*Term); ok {
				it = t
			}
			return TV{V: &SpecVal{Kind: "other", T: Select(v, it)}}
		}
	case *SpecVal:
		if v.T != nil && v.T.Sort.K == KArray {
			i := x.evalSpec(env, n.I)
			var it *Term
			if c, ok := isConstTV(i); ok {
				if v.T.Sort.Idx.K == KInt {
					it = IntConst(c)
				} else {
					it = BVConst(c, v.T.Sort.Idx.W)
				}
			} else if ni, ok := x.numOf(i); ok {
				it = ni.t
			} else if t, ok := i.V.(*Term); ok {
				it = t
			} else if sv, ok := i.V.(*SpecVal); ok {
				it = sv.T
			} else if pv, ok := i.V.(*PtrV); ok {
				it = pv.Ref
			} else if stv, ok := i.V.(*StructV); ok && i.T != nil {
				// a struct used as the key of a ghost set (visited[k]): the same key term a map with
				// that key type uses
				ts := x.flatten(i.T, stv)
				idx := v.T.Sort.Idx
				switch {
				case len(ts) == 1:
					it = ts[0]
				case idx.K == KUnint && strings.HasPrefix(idx.Name, "Key_"):
					it = x.tupleKey(env.state(), i.T, ts)
				default:
					it = ts[0]
					for _, t := range ts[1:] {
						it = Concat(it, t)
					}
				}
			}
			if it == nil {
				specFail("unsupported index value %T", i.V)
			}
			r := Select(v.T, it)
			if r.Sort.K == KBool {
				return mkSpecBool(r)
			}
			return TV{V: &SpecVal{Kind: "other", T: r}}
		}
	}
	specFail("index on %T", base.V)
	return TV{}
}

func (x *Exec) specSlice(env *SpecEnv, n *ESlice) TV {
	base := x.evalSpec(env, n.X)
	s, ok := base.V.(*SliceV)
	if !ok {
		specFail("slice expression on %T", base.V)
	}
	lo := BVConstU(0, 64)
	hi := s.Len
	if n.Lo != nil {
		lo = x.specIndexTerm(env, n.Lo)
	}
	if n.Hi != nil {
		hi = x.specIndexTerm(env, n.Hi)
	}
	return TV{&SliceV{s.Base, BVBin("bvadd", s.Off, lo), BVBin("bvsub", hi, lo), BVBin("bvsub", s.Cap, lo)}, base.T}
}

func (x *Exec) specSortOf(env *SpecEnv, tname string) (Sort, types.Type, string) {
	switch tname {
	case "Int", "mathint":
		return SInt, nil, "int"
	case "Seq":
		return SSeq, nil, "seq"
	case "Bool":
		return SBool, types.Typ[types.Bool], ""
	}
	if strings.HasPrefix(tname, "u") || strings.HasPrefix(tname, "s") {
		var w int
		if _, err := fmt.Sscanf(tname[1:], "%d", &w); err == nil && w > 0 && fmt.Sprintf("%d", w) == tname[1:] {
			if t := x.P.LookupType(env.typesPkg(), tname); t == nil {
				if tname[0] == 'u' {
					return BV(w), nil, "ubv"
				}
				return BV(w), nil, "sbv"
			}
		}
	}
	t := x.P.LookupType(env.typesPkg(), tname)
	if t == nil {
		specFail("unknown type %q", tname)
	}
	cs := x.compsOf(t)
	if len(cs) != 1 {
		return Sort{}, t, "composite"
	}
	return cs[0].sort, t, ""
}

func (x *Exec) specQuant(env *SpecEnv, n *EQuant) TV {
	sub := *env
	sub.names = map[string]TV{}
	for k, v := range env.names {
		sub.names[k] = v
	}
	var binders, bnames []string
	startFresh := x.fresh
	for _, v := range n.Vars {
		s, t, kind := x.specSortOf(env, v.Type)
		if kind == "composite" {
			// one bound variable per component (interfaces: tag and ref; slices: base/off/len/cap)
			var ts []*Term
			for _, c := range x.compsOf(t) {
				bc := x.freshBound(v.Name+c.suffix, c.sort)
				bnames = append(bnames, bc.S)
				binders = append(binders, fmt.Sprintf("(%s %s)", bc.S, c.sort.String()))
				ts = append(ts, bc)
			}
			val, _ := x.unflatten(t, ts)
			sub.names[v.Name] = TV{val, t}
			continue
		}
		b := x.freshBound(v.Name, s)
		bnames = append(bnames, b.S)
		binders = append(binders, fmt.Sprintf("(%s %s)", b.S, s.String()))
		switch kind {
		case "int":
			sub.names[v.Name] = mkSpecInt(b)
		case "seq":
			sub.names[v.Name] = TV{V: &SpecVal{Kind: "seq", T: b}}
		case "ubv", "sbv":
			sub.names[v.Name] = TV{V: &SpecVal{Kind: kind, T: b}}
		default:
			val, _ := x.unflatten(t, []*Term{b})
			sub.names[v.Name] = TV{val, t}
		}
	}
	// quantified bodies must not add assumptions to the state: evaluate on a scratch clone and
	// conjoin what was assumed (definitions of named terms) into the body as antecedents.
	scratch := env.state().Clone()
	sub2 := sub
	// applications of recursive spec functions stay folded under a binder: their unfolding would
	// become an antecedent over the bound variable and weaken assumed invariants
	sub2.noUnfold = true
	if env.inOld {
		sub2.old = scratch
	} else {
		sub2.st = scratch
	}
	before := scratch.pc
	body := x.specBool(&sub2, n.Body)
	var extra []*Term
	for p := scratch.pc; p != before && p != nil; p = p.prev {
		extra = append(extra, p.t)
	}
	q := "forall"
	if !n.Forall {
		q = "exists"
	}
	if len(extra) > 0 {
		// Facts recorded while evaluating the body (well-formedness of loaded cells, axiom instances)
		// hold for every value of the bound variables. Those that do not mention the bound variables
		// are stated outside the quantifier; under an existential the others are stated once,
		// universally, instead of being conjoined to the witness condition (otherwise a goal
		// "exists j :: P(j)" would also have to re-prove them). Facts that define a symbol created
		// during this evaluation stay inside the body.
		var keep, hoist []*Term
		for _, e := range extra {
			if mentionsFreshSince(e.S, startFresh) {
				keep = append(keep, e)
				continue
			}
			own := false
			for _, b := range bnames {
				if strings.Contains(e.S, b) {
					own = true
					break
				}
			}
			switch {
			case !own:
				env.state().Assume(e)
			case x.validFacts[e.S]:
				// an instance of a universally valid schema: true for every value of the bound
				// variables, hence neither an antecedent nor a conjunct
			case !n.Forall:
				hoist = append(hoist, e)
			default:
				if bf, ok := x.bornFacts[e.S]; ok && x.assumeBornAxiom(env.state(), bf) {
					// stated universally for the whole array instead of as an antecedent over the
					// bound variable
					continue
				}
				keep = append(keep, e)
			}
		}
		// Stating them universally gives the solvers trigger-less quantifiers that they instantiate
		// without end; they are left out (facts about the witness that a proof needs can be written
		// in the quantifier body).
		if len(hoist) > 0 && hoistExistsFacts {
			// canonical bound names, so that the same fact hoisted from several evaluations of one
			// expression is one assertion
			txt := fmt.Sprintf("(forall (%s) %s)", strings.Join(binders, " "), And(hoist...).S)
			for i, b := range bnames {
				txt = strings.ReplaceAll(txt, b, fmt.Sprintf("|hb?%d|", i))
			}
			env.state().Assume(&Term{S: txt, Sort: SBool})
		}
		extra = keep
	}
	// Definitions "(= c t)" of symbols named while evaluating the body, whose term t depends on the
	// bound variables, are not facts about a global constant: c stands for t. They are substituted
	// into the body (and into the other kept facts), newest first, instead of being conjoined -
	// conjoined under an existential they would let the refutation pick c freely.
	if len(extra) > 0 {
		type def struct{ sym, rhs string }
		var defs []def
		var rest []*Term
		for _, e := range extra { // extra is newest first
			if e.Def != "" && strings.HasPrefix(e.S, "(= "+e.Def+" ") {
				dependsOnBound := false
				for _, b := range bnames {
					if strings.Contains(e.S, b) {
						dependsOnBound = true
						break
					}
				}
				if dependsOnBound {
					defs = append(defs, def{e.Def, e.S[len("(= "+e.Def+" ") : len(e.S)-1]})
					continue
				}
			}
			rest = append(rest, e)
		}
		if len(defs) > 0 {
			subst := func(t string) string {
				for _, d := range defs {
					if strings.Contains(t, d.sym) {
						t = strings.ReplaceAll(t, d.sym, d.rhs)
					}
				}
				return t
			}
			body = &Term{S: subst(body.S), Sort: SBool}
			for i, e := range rest {
				rest[i] = &Term{S: subst(e.S), Sort: SBool, Def: e.Def}
			}
		}
		extra = rest
	}
	if len(extra) > 0 {
		if n.Forall {
			body = Implies(And(extra...), body)
		} else {
			body = And(append(extra, body)...)
		}
	}
	return mkSpecBool(&Term{S: fmt.Sprintf("(%s (%s) %s)", q, strings.Join(binders, " "), body.S), Sort: SBool})
}

func (x *Exec) specCall(env *SpecEnv, n *ECall) TV {
	// method-style calls on values: x.M(args)
	if sel, ok := n.Fun.(*ESel); ok {
		return x.specMethodCall(env, sel, n.Args)
	}
	id, ok := n.Fun.(*EIdent)
	if !ok {
		specFail("call of non-identifier")
	}
	name := id.Name
	st := env.state()
	arg := func(i int) TV { return x.evalSpec(env, n.Args[i]) }
	switch name {
	case "ifbound":
		// ifbound(x, e): e when the local variable x has been defined on this path, true otherwise
		// (for call-event obligations at a call that occurs both before and after x's definition)
		if id, ok := n.Args[0].(*EIdent); ok && len(n.Args) == 2 {
			if _, have := env.names[id.Name]; !have {
				if _, lazy := env.lazy[id.Name]; !lazy {
					return TV{TTrue, types.Typ[types.Bool]}
				}
			}
			return x.evalSpec(env, n.Args[1])
		}
		specFail("ifbound(variable, expression)")
	case "old":
		sub := *env
		sub.inOld = true
		oldSt := sub.state()
		before := oldSt.pc
		r := x.evalSpec(&sub, n.Args[0])
		if p, ok := r.V.(*PtrV); ok && p.LazyStruct {
			// a struct-typed field: take its value in the old state now, not when it is used
			r = TV{x.Load(sub.state(), p), p.Elem}
		}
		if !env.inOld && env.st != nil && oldSt != env.st {
			// what was recorded about the entry state while evaluating (definitions of named terms,
			// well-formedness of entry memory, axiom instances) is still true now
			var add []*Term
			for p := oldSt.pc; p != before && p != nil; p = p.prev {
				add = append(add, p.t)
			}
			for i := len(add) - 1; i >= 0; i-- {
				env.st.Assume(add[i])
			}
		}
		return r
	case "len":
		a := arg(0)
		switch v := a.V.(type) {
		case *SliceV:
			return TV{v.Len, types.Typ[types.Int]}
		case *Term:
			if isString(a.T) {
				return TV{x.strLen(v), types.Typ[types.Int]}
			}
			if mt, ok := a.T.Underlying().(*types.Map); ok {
				return TV{x.mapLen(st, v, mt), types.Typ[types.Int]}
			}
		case *SpecVal:
			if v.Kind == "seq" {
				return TV{x.seqLen(v.T), types.Typ[types.Int]}
			}
		}
		specFail("len of %T", a.V)
	case "cap":
		a := arg(0)
		if v, ok := a.V.(*SliceV); ok {
			return TV{v.Cap, types.Typ[types.Int]}
		}
		specFail("cap of %T", a.V)
	case "subslice": // subslice(s, lo, hi): the slice value s[lo:hi]
		a := arg(0)
		v, ok := a.V.(*SliceV)
		if !ok {
			specFail("subslice of %T", a.V)
		}
		lo := x.specIndexTerm(env, n.Args[1])
		hi := x.specIndexTerm(env, n.Args[2])
		return TV{&SliceV{v.Base, BVBin("bvadd", v.Off, lo), BVBin("bvsub", hi, lo), BVBin("bvsub", v.Cap, lo)}, a.T}
	case "N": // unsigned value as Int
		a := arg(0)
		if c, ok := isConstTV(a); ok {
			return mkSpecInt(IntConst(c))
		}
		ni, ok := x.numOf(a)
		if !ok {
			specFail("N() of non-number")
		}
		if ni.kind == "int" {
			return a
		}
		return mkSpecInt(BV2Nat(ni.t))
	case "Z": // value as Int respecting signedness
		return mkSpecInt(x.toMathInt(arg(0)))
	case "isnan":
		a := arg(0)
		ft, ok := a.V.(*Term)
		if !ok || ft.Sort.K != KFP64 {
			specFail("isnan() needs a float64")
		}
		return mkSpecBool(App("fp.isNaN", SBool, ft))
	case "mk": // mk(type(T), f1, f2, ...): the struct value T{f1, f2, ...} (nil allowed for reference-typed fields)
		ta, ok := n.Args[0].(*ETypeArg)
		if !ok {
			specFail("mk(type(T), fields...)")
		}
		t := x.P.LookupType(env.typesPkg(), ta.Type)
		if t == nil {
			specFail("unknown type %s", ta.Type)
		}
		us, ok := t.Underlying().(*types.Struct)
		if !ok || us.NumFields() != len(n.Args)-1 {
			specFail("mk: %s is not a struct with %d fields", ta.Type, len(n.Args)-1)
		}
		sv := &StructV{T: us}
		for i := 0; i < us.NumFields(); i++ {
			fv := arg(i + 1)
			if s, isS := fv.V.(*SpecVal); isS && s.Kind == "nil" {
				sv.Fields = append(sv.Fields, x.zeroValue(us.Field(i).Type()))
				continue
			}
			sv.Fields = append(sv.Fields, x.coerceTo(fv, us.Field(i).Type()).V)
		}
		return TV{sv, t}
	case "mapval": // mapval(m, f1, f2, ...): m[K{f1, f2, ...}] for a map whose key is a struct of scalar fields
		m := arg(0)
		mt, ok := m.T.Underlying().(*types.Map)
		if !ok {
			specFail("mapval() needs a map")
		}
		ks, ok := mt.Key().Underlying().(*types.Struct)
		if !ok || ks.NumFields() != len(n.Args)-1 {
			specFail("mapval(m, fields...): the key type must be a struct with %d fields", len(n.Args)-1)
		}
		kv := &StructV{T: ks}
		for i := 0; i < ks.NumFields(); i++ {
			kv.Fields = append(kv.Fields, x.coerceTo(arg(i+1), ks.Field(i).Type()).V)
		}
		val, _ := x.mapGet(st, m.V.(*Term), mt, kv)
		return TV{val, mt.Elem()}
	case "bytesbv": // bytesbv(slice, n): the first n bytes of a []byte as an [n]byte value (n <= 64)
		a := arg(0)
		sl, ok := a.V.(*SliceV)
		c, okc := isConstTV(arg(1))
		if !ok || !okc || c.Int64() <= 0 || c.Int64() > 64 {
			specFail("bytesbv(slice, n) with constant 0 < n <= 64")
		}
		nb := int(c.Int64())
		var v *Term
		for i := 0; i < nb; i++ {
			b := x.loadElem(st, sl.Base, BVBin("bvadd", sl.Off, BVConstU(uint64(i), 64)), types.Typ[types.Uint8]).(*Term)
			if v == nil {
				v = b
			} else {
				v = Concat(v, b)
			}
		}
		return TV{v, types.NewArray(types.Typ[types.Uint8], int64(nb))}
	case "natseq": // the big-endian natural number encoded by a byte sequence (as big.Int.SetBytes)
		s := x.specSeq(arg(0))
		v := x.D.Fun("natOfSeq", SInt, s)
		st.Assume(IntCmp(">=", v, IntConstI(0)))
		return mkSpecInt(v)
	case "bufdata": // bufdata(b): the unread portion of a *bytes.Buffer, as a byte slice (zz_buffer.go)
		a := arg(0)
		p, ok := a.V.(*PtrV)
		if !ok {
			specFail("bufdata() needs a *bytes.Buffer")
		}
		return TV{x.bufGet(st, p.Ref), types.NewSlice(types.Typ[types.Uint8])}
	case "fresh": // fresh(x): the object x refers to was allocated during this call (it did not exist at entry)
		a := arg(0)
		var ref *Term
		switch p := a.V.(type) {
		case *PtrV:
			ref = p.Ref
		case *IfaceV:
			ref = p.Ref
		case *SliceV:
			ref = p.Base
		case *Term:
			if p.Sort.K == KInt {
				ref = p
			}
		}
		if ref == nil {
			specFail("fresh() needs a pointer, map or slice")
		}
		// in a callee's postcondition applied at a call site, "allocated during the call" means
		// younger than everything the caller has allocated so far (env.freshBase)
		return TV{IntCmp(">", ref, IntBin("*", IntConstI(refK), IntBin("+", x.allocBase, IntConstI(int64(env.freshBase))))), types.Typ[types.Bool]}
	case "gf": // ghost field of an object: gf(ptr, name) : int
		a := arg(0)
		var ref *Term
		switch p := a.V.(type) {
		case *PtrV:
			ref = p.Ref
		case *IfaceV:
			ref = p.Ref // the object an interface value holds
		default:
			specFail("gf() needs a pointer")
		}
		id, ok := n.Args[1].(*EIdent)
		if !ok {
			specFail("gf(ptr, fieldname)")
		}
		arr := x.heapArr(st, "GF:"+id.Name, SInt, SBV64)
		return TV{Select(arr, ref), types.Typ[types.Int]}
	case "val": // *big.Int value
		a := arg(0)
		p, ok := a.V.(*PtrV)
		if !ok {
			specFail("val() needs *big.Int")
		}
		return mkSpecInt(x.bigVal(st, p.Ref))
	case "seq":
		a := arg(0)
		switch v := a.V.(type) {
		case *SliceV:
			t := x.seqOf(st, v)
			return TV{V: &SpecVal{Kind: "seq", T: t}}
		case *Term:
			if nb := byteArrayLen(a.T); nb > 0 {
				sq := x.D.Fun(fmt.Sprintf("seqofarr%d", nb), SSeq, v)
				st.Assume(Eq(x.D.Fun(fmt.Sprintf("arrofseq%d", nb), v.Sort, sq), v))
				st.Assume(Eq(x.seqLen(sq), BVConstU(uint64(nb), 64)))
				return TV{V: &SpecVal{Kind: "seq", T: sq}}
			}
			if isString(a.T) {
				return TV{V: &SpecVal{Kind: "seq", T: x.D.Fun("seq_of_str", SSeq, v)}}
			}
		}
		specFail("seq() of %T", a.V)
	case "cat":
		r := x.specSeq(arg(0))
		for i := 1; i < len(n.Args); i++ {
			r = x.seqCat(st, r, x.specSeq(arg(i)))
		}
		return TV{V: &SpecVal{Kind: "seq", T: r}}
	case "emptyseq":
		e := x.D.Fun("seqempty", SSeq)
		st.Assume(Eq(x.seqLen(e), BVConstU(0, 64)))
		return TV{V: &SpecVal{Kind: "seq", T: e}}
	case "byteseq": // single byte sequence
		a := arg(0)
		var b *Term
		if c, ok := isConstTV(a); ok {
			b = BVConst(c, 8)
		} else {
			b = a.V.(*Term)
		}
		return TV{V: &SpecVal{Kind: "seq", T: x.seqByte(st, b)}}
	case "dyn":
		a := arg(0)
		iv, ok := a.V.(*IfaceV)
		if !ok {
			specFail("dyn() needs an interface value")
		}
		return TV{V: &SpecVal{Kind: "tag", T: iv.Tag}}
	case "ref":
		a := arg(0)
		switch v := a.V.(type) {
		case *IfaceV:
			return mkSpecInt(v.Ref)
		case *PtrV:
			return mkSpecInt(v.Ref)
		case *SliceV:
			return mkSpecInt(v.Base)
		}
		specFail("ref() of %T", a.V)
	case "ite":
		c := x.specBool(env, n.Args[0])
		a, b := arg(1), arg(2)
		if sa, ok := a.V.(*SpecVal); ok && sa.Kind == "seq" {
			return TV{V: &SpecVal{Kind: "seq", T: Ite(c, sa.T, x.specSeq(b))}}
		}
		if ta, ok := a.V.(*Term); ok && ta.Sort.K == KBool {
			return mkSpecBool(Ite(c, ta, x.specBool(env, n.Args[2])))
		}
		na, nb := x.unifyNum(a, b, "ite")
		na.t = Ite(c, na.t, nb.t)
		return numTV(na)
	case "fnapp": // fnapp(f, i, args...): result i of calling the deterministic function value f (zz_detfunc.go)
		c, ok := isConstTV(arg(1))
		if !ok {
			specFail("fnapp(f, i, args...): i must be a constant")
		}
		var as []TV
		for j := 2; j < len(n.Args); j++ {
			as = append(as, arg(j))
		}
		return x.specFnApp(env, arg(0), int(c.Int64()), as)
	case "called": // callback target was invoked on this path
		s := nameArg(n.Args[0])
		for k := range st.ghost {
			if strings.HasPrefix(k, "$called:") && matchTarget(s, k[8:]) {
				return mkSpecBool(TTrue)
			}
			if strings.HasPrefix(k, "$call:") && matchTarget(s, k[6:]) {
				return mkSpecBool(TTrue)
			}
		}
		return mkSpecBool(TFalse)
	case "callres", "callarg": // result / i-th argument of the last call of F made by this function (attr trackcalls)
		s := nameArg(n.Args[0])
		var rec *callRecord
		for k, v := range st.ghost {
			if strings.HasPrefix(k, "$call:") && matchTarget(s, k[6:]) {
				rec = v.(*callRecord)
			}
		}
		if rec == nil {
			// not called on this path: an unconstrained value would be unsound to reason about, so the
			// clause must be guarded by called(F); evaluate to a fresh value of a dummy sort
			specFail("%s(%s): no such call on this path (guard the clause with called(%s))", name, s, s)
		}
		if name == "callres" {
			if tup, ok := rec.rt.(*types.Tuple); ok {
				idx := 0
				if len(n.Args) > 1 {
					if c, ok := isConstTV(arg(1)); ok {
						idx = int(c.Int64())
					}
				}
				return TV{rec.res.(*TupleV).Elems[idx], tup.At(idx).Type()}
			}
			return TV{rec.res, rec.rt}
		}
		c, ok := isConstTV(arg(1))
		if !ok {
			specFail("callarg(F, i): i must be a constant")
		}
		i := int(c.Int64())
		off := 0
		if rec.sig.Recv() != nil {
			if i == 0 {
				return TV{rec.args[0], rec.sig.Recv().Type()}
			}
			off = 1
		}
		return TV{rec.args[i], rec.sig.Params().At(i - off).Type()}
	case "holds": // holds(token): the typestate token is held (see zz_token.go)
		return mkSpecBool(x.tokenValue(st, nameArg(n.Args[0])))
	case "sent":
		s := nameArg(n.Args[0])
		res := TFalse
		var keys []string
		for k := range st.ghost {
			keys = append(keys, k)
		}
		sort.Strings(keys)
		for _, k := range keys {
			if strings.HasPrefix(k, "$sent:") && matchTarget(s, k[6:]) {
				if t, ok := st.ghost[k].(*Term); ok {
					res = Or(res, t)
				}
			}
		}
		return mkSpecBool(res)
	case "implements": // implements(ifaceValue, "interface type"): the comma-ok assertion to that interface succeeds
		a := arg(0)
		iv, ok := a.V.(*IfaceV)
		if !ok {
			specFail("implements() needs an interface value")
		}
		ts, ok := n.Args[1].(*EString)
		if !ok {
			specFail("implements(x, \"type\")")
		}
		tk := ts.Val
		if !strings.Contains(tk, "{") {
			t := x.P.LookupType(env.typesPkg(), tk)
			if t == nil {
				specFail("unknown type %s", tk)
			}
			if a.T != nil && implementsStatically(a.T, t) {
				return mkSpecBool(Neq(iv.Tag, IntConstI(0)))
			}
			tk = typeKey(t)
		}
		return mkSpecBool(And(Neq(iv.Tag, IntConstI(0)), x.D.Fun(smtName("implements:"+tk), SBool, iv.Tag)))
	case "unbox": // unbox(iface, type(T))
		a := arg(0)
		iv := a.V.(*IfaceV)
		ta, ok := n.Args[1].(*ETypeArg)
		if !ok {
			specFail("unbox(x, type(T))")
		}
		t := x.P.LookupType(env.typesPkg(), ta.Type)
		if t == nil {
			specFail("unknown type %s", ta.Type)
		}
		return TV{x.unbox(st, t, iv), t}
	}
	// widening casts uN / sN
	if (name[0] == 'u' || name[0] == 's') && len(name) > 1 {
		var w int
		if _, err := fmt.Sscanf(name[1:], "%d", &w); err == nil && fmt.Sprintf("%d", w) == name[1:] && w > 0 {
			a := arg(0)
			if c, ok := isConstTV(a); ok {
				k := "ubv"
				if name[0] == 's' {
					k = "sbv"
				}
				return TV{V: &SpecVal{Kind: k, T: BVConst(c, w)}}
			}
			ni, ok := x.numOf(a)
			if !ok || ni.kind != "bv" {
				specFail("%s() of non-bitvector", name)
			}
			k := "ubv"
			if name[0] == 's' {
				k = "sbv"
			}
			return TV{V: &SpecVal{Kind: k, T: Resize(ni.t, w, ni.signed)}}
		}
	}
	// Go conversions to basic integer types: uint64(x) etc.
	if t := x.P.LookupType(env.typesPkg(), name); t != nil && len(n.Args) == 1 {
		if w, _, ok := intInfo(t); ok {
			a := arg(0)
			if c, ok := isConstTV(a); ok {
				return TV{BVConst(c, w), t}
			}
			ni, ok := x.numOf(a)
			if ok && ni.kind == "bv" {
				return TV{Resize(ni.t, w, ni.signed), t}
			}
		}
	}
	// spec functions
	if sf, ok := x.CS.Specs[name]; ok {
		return x.applySpecFunc(env, sf, n.Args)
	}
	// real functions with a functional contract: f(args) or f$res(args)
	if env.pkg != nil {
		base, res := splitRes(name)
		if fn, ok := env.pkg.Members[base].(*ssa.Function); ok {
			var args []TV
			for i := range n.Args {
				args = append(args, arg(i))
			}
			return x.specFunctionalCall(env, fn, res, args)
		}
	}
	specFail("unknown function %q in specification", name)
	return TV{}
}

func (x *Exec) specSeq(tv TV) *Term {
	if sv, ok := tv.V.(*SpecVal); ok && sv.Kind == "seq" {
		return sv.T
	}
	specFail("expected a byte sequence")
	return nil
}

func (x *Exec) applySpecFunc(env *SpecEnv, sf *SpecFunc, args []Expr) TV {
	if len(args) != len(sf.Params) {
		specFail("spec func %s: arity", sf.Name)
	}
	var vals []TV
	for i, a := range args {
		tv := x.evalSpec(env, a)
		// coerce constants to declared parameter types
		s, t, kind := x.specSortOfIn(sf, env, sf.Params[i].Type)
		if c, ok := isConstTV(tv); ok {
			switch {
			case kind == "int":
				tv = mkSpecInt(IntConst(c))
			case s.K == KBV:
				if t != nil {
					tv = TV{BVConst(c, s.W), t}
				} else {
					tv = TV{V: &SpecVal{Kind: kind, T: BVConst(c, s.W)}}
				}
			}
		} else if kind == "int" {
			tv = mkSpecInt(x.toMathInt(tv))
		}
		vals = append(vals, tv)
	}
	evalBody := func(noUnfold bool) TV {
		sub := *env
		sub.names = map[string]TV{}
		for k, v := range env.names {
			sub.names[k] = v
		}
		for i, p := range sf.Params {
			sub.names[p.Name] = vals[i]
		}
		if sf.Pkg != "" {
			if sp := x.P.Package(sf.Pkg); sp != nil {
				sub.pkg = sp
			}
		}
		sub.noUnfold = noUnfold
		return x.evalSpec(&sub, sf.Body)
	}
	if sf.Body != nil && !sf.Rec {
		return evalBody(env.noUnfold)
	}
	if sf.Opaque && sf.Body != nil {
		x.revealOpaque(env, sf)
		envNo := *env
		envNo.noUnfold = true
		app := x.applySpecFuncVals(&envNo, sf, vals)
		if !env.noUnfold {
			// ground instance of the definition, for solvers that do not instantiate the axiom
			body := evalBody(true)
			env.state().Assume(x.specEq(env, app, body))
		}
		return app
	}
	if sf.Rec && sf.Body != nil && !env.noUnfold {
		// recursive definition: the application is an uninterpreted term plus its one-step unfolding
		envNo := *env
		envNo.noUnfold = true
		app := x.applySpecFuncVals(&envNo, sf, vals)
		body := evalBody(true)
		env.state().Assume(x.specEq(env, app, body))
		return app
	}
	return x.applySpecFuncVals(env, sf, vals)
}

func (x *Exec) applySpecFuncVals(env *SpecEnv, sf *SpecFunc, vals []TV) TV {
	// uninterpreted
	var ins []*Term
	if sf.Rec {
		// a recursive definition may read memory: its value is tied to the heap epoch
		ins = append(ins, x.epochTerm(env.state()))
	}
	for i, v := range vals {
		ins = append(ins, x.flattenTV(v, sf.Params[i].Type)...)
	}
	rs, rt, kind := x.specSortOfIn(sf, env, sf.Result)
	if kind == "composite" {
		cs := x.compsOf(rt)
		var ts []*Term
		for _, c := range cs {
			ts = append(ts, x.D.Fun(smtName("spec:"+sf.Name+c.suffix), c.sort, ins...))
		}
		v, _ := x.unflatten(rt, ts)
		return TV{v, rt}
	}
	r := x.D.Fun(smtName("spec:"+sf.Name), rs, ins...)
	switch kind {
	case "int":
		return mkSpecInt(r)
	case "seq":
		return TV{V: &SpecVal{Kind: "seq", T: r}}
	case "ubv", "sbv":
		return TV{V: &SpecVal{Kind: kind, T: r}}
	}
	if rs.K == KBool {
		return mkSpecBool(r)
	}
	v, _ := x.unflatten(rt, []*Term{r})
	return TV{v, rt}
}

func (x *Exec) specSortOfIn(sf *SpecFunc, env *SpecEnv, tname string) (Sort, types.Type, string) {
	// resolve relative to the package that declared the spec function when possible
	if sf.Pkg != "" {
		if sp := x.P.Package(sf.Pkg); sp != nil {
			sub := *env
			sub.pkg = sp
			return x.specSortOf(&sub, tname)
		}
	}
	return x.specSortOf(env, tname)
}

func (x *Exec) flattenTV(tv TV, tname string) []*Term {
	switch v := tv.V.(type) {
	case *SpecVal:
		if v.Kind == "const" {
			return []*Term{IntConst(v.C)}
		}
		return []*Term{v.T}
	case *Term:
		return []*Term{v}
	}
	if tv.T != nil {
		return x.flatten(tv.T, tv.V)
	}
	specFail("cannot pass %T to a spec function", tv.V)
	return nil
}

func (x *Exec) specMethodCall(env *SpecEnv, sel *ESel, args []Expr) TV {
	mname, res := splitRes(sel.Sel)
	// pkg.Func(args) for a function with a functional contract in an imported package
	if id, ok := sel.X.(*EIdent); ok && env.typesPkg() != nil {
		_, bound := env.names[id.Name]
		_, lz := env.lazy[id.Name]
		if !bound && !lz {
			// pkg.specfunc(args): spec functions are global by name
			if sf, ok := x.CS.Specs[mname]; ok && res == "" {
				for _, imp := range env.typesPkg().Imports() {
					if imp.Name() == id.Name && (sf.Pkg == imp.Path() || sf.Pkg == "") {
						return x.applySpecFunc(env, sf, args)
					}
				}
			}
			for _, imp := range env.typesPkg().Imports() {
				if imp.Name() == id.Name {
					if sp := x.P.Package(imp.Path()); sp != nil {
						if fn, ok := sp.Members[mname].(*ssa.Function); ok {
							var as []TV
							for _, a := range args {
								as = append(as, x.evalSpec(env, a))
							}
							return x.specFunctionalCall(env, fn, res, as)
						}
					}
				}
			}
		}
	}
	recv := x.evalSpec(env, sel.X)
	switch v := recv.V.(type) {
	case *IfaceV:
		it, ok := recv.T.Underlying().(*types.Interface)
		if !ok {
			specFail("method call on non-interface")
		}
		var m *types.Func
		for i := 0; i < it.NumMethods(); i++ {
			if it.Method(i).Name() == mname {
				m = it.Method(i)
			}
		}
		key := typeKey(recv.T) + "." + mname
		var sig *types.Signature
		if m == nil {
			// a method of the dynamic type that the static interface does not list: allowed when it is
			// declared pure on some other interface (pureiface) or for every receiver (pureany)
			sig = x.pureSigByName(env, mname)
			if sig == nil {
				specFail("no method %s on %s (and no pureiface/pureany declaration for it)", mname, recv.T)
			}
		} else {
			if !x.CS.IsPure(typeKey(recv.T), mname) {
				specFail("interface method %s is not declared pure (pureiface)", key)
			}
			sig = m.Type().(*types.Signature)
		}
		ins := []*Term{v.Tag, v.Ref}
		if len(args) != sig.Params().Len() {
			specFail("method %s: expected %d arguments", mname, sig.Params().Len())
		}
		for i, a := range args {
			av := x.coerceTo(x.evalSpec(env, a), sig.Params().At(i).Type())
			ins = append(ins, x.flatten(sig.Params().At(i).Type(), av.V)...)
		}
		idx := 0
		suffix := ""
		if sig.Results().Len() != 1 {
			if res == "" {
				specFail("interface method %s has %d results: select one with $<index>", key, sig.Results().Len())
			}
			fmt.Sscanf(res, "%d", &idx)
			suffix = fmt.Sprintf("#%d", idx)
		}
		rt := sig.Results().At(idx).Type()
		cs := x.compsOf(rt)
		var ts []*Term
		for _, cp := range cs {
			app := x.D.Fun(smtName(ifaceUFName(mname, sigString(sig))+suffix+cp.suffix), cp.sort, ins...)
			ts = append(ts, app)
			if len(args) == 0 {
				x.addInput(ModelVar{"call:" + mname + suffix + cp.suffix + "@" + v.Ref.S, app.S, cp.sort.String()})
			}
		}
		val, _ := x.unflatten(rt, ts)
		// same assumptions as at a call site in code: representation invariant, and the result
		// refers to memory that existed at entry (a getter does not allocate what it returns).
		// When the caller immediately selects one field of a struct result, only that field's
		// facts are stated (by the caller).
		if _, isS := rt.Underlying().(*types.Struct); isS && x.rawSel == sel {
			x.rawSel = nil
			x.rawDone = true
			return TV{val, rt}
		}
		x.assumeTypeInv(env.state(), rt, val)
		x.markOld(env.state(), rt, val)
		return TV{val, rt}
	case *PtrV:
		if fn := x.findMethod(v.Elem, mname); fn != nil {
			var as []TV
			if fn.Signature.Recv() != nil {
				if _, isPtr := fn.Signature.Recv().Type().(*types.Pointer); isPtr {
					as = append(as, recv)
				} else {
					as = append(as, TV{x.Load(env.state(), v), v.Elem})
				}
			}
			for _, a := range args {
				as = append(as, x.evalSpec(env, a))
			}
			return x.specFunctionalCall(env, fn, res, as)
		}
	default:
		if recv.T != nil {
			if fn := x.findMethod(recv.T, mname); fn != nil && fn.Signature.Recv() != nil {
				if _, isPtr := fn.Signature.Recv().Type().(*types.Pointer); !isPtr {
					as := []TV{recv}
					for _, a := range args {
						as = append(as, x.evalSpec(env, a))
					}
					return x.specFunctionalCall(env, fn, res, as)
				}
			}
		}
	}
	specFail("method call %s in specification not supported on %T", sel.Sel, recv.V)
	return TV{}
}

// pureSigByName finds the signature of a method declared pure on some interface or by pureany.
func (x *Exec) pureSigByName(env *SpecEnv, mname string) *types.Signature {
	if rtName, ok := x.CS.PureAny[mname]; ok {
		rt := x.P.LookupType(env.typesPkg(), rtName)
		if rt == nil {
			specFail("pureany %s: unknown result type %s", mname, rtName)
		}
		return types.NewSignatureType(nil, nil, nil, nil, types.NewTuple(types.NewVar(0, nil, "", rt)), false)
	}
	var keys []string
	for k := range x.CS.PureIface {
		if strings.HasSuffix(k, "."+mname) {
			keys = append(keys, k)
		}
	}
	sort.Strings(keys)
	for _, k := range keys {
		iname := strings.TrimSuffix(k, "."+mname)
		t := x.P.LookupType(env.typesPkg(), iname)
		if t == nil {
			continue
		}
		if it, ok := t.Underlying().(*types.Interface); ok {
			for i := 0; i < it.NumMethods(); i++ {
				if it.Method(i).Name() == mname {
					return it.Method(i).Type().(*types.Signature)
				}
			}
		}
	}
	return nil
}
