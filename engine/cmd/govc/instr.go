package main

// Per-instruction symbolic semantics (non-call).

import (
	"fmt"
	"go/token"
	"go/types"

	"golang.org/x/tools/go/ssa"
)

// step executes one non-terminator instruction. If it returns true it has
// taken over control (called cont itself, possibly several times).
func (x *Exec) step(fr *Frame, st *State, ins ssa.Instruction, cont func(*Frame, *State), k func(*pathEnd)) bool {
	switch in := ins.(type) {
	case *ssa.Alloc:
		elem := in.Type().(*types.Pointer).Elem()
		ref := x.newRef(st, in.Comment)
		x.noteRefArrays(ref, elem)
		if !in.Heap {
			st.markStack(ref)
		} else if in.Comment != "varargs" {
			st.markPrivate(ref)
		}
		p := &PtrV{Ref: ref, Elem: elem}
		if byteArrayLen(elem) > 0 && in.Referrers() != nil {
			for _, r := range *in.Referrers() {
				if _, ok := r.(*ssa.Slice); ok {
					p.Backed = true
				}
			}
		}
		x.StoreTo(st, p, x.zeroValue(elem))
		if typeKey(elem) == "math/big.Int" {
			x.setBigVal(st, ref, IntConstI(0))
		}
		fr.vals[in] = p
	case *ssa.BinOp:
		a := x.operand(fr, st, in.X)
		b := x.operand(fr, st, in.Y)
		fr.vals[in] = x.nameValue(st, in.Type(), x.binop(fr, st, in.Op, in.X.Type(), in.Y.Type(), a, b, in.Pos()), in.Name())
	case *ssa.UnOp:
		fr.vals[in] = x.unop(fr, st, in)
	case *ssa.Convert:
		fr.vals[in] = x.convert(st, in.X.Type(), in.Type(), x.operand(fr, st, in.X))
	case *ssa.MultiConvert:
		fr.vals[in] = x.convert(st, in.X.Type(), in.Type(), x.operand(fr, st, in.X))
	case *ssa.ChangeType:
		fr.vals[in] = x.changeType(in.X.Type(), in.Type(), x.operand(fr, st, in.X))
	case *ssa.ChangeInterface:
		fr.vals[in] = x.operand(fr, st, in.X)
	case *ssa.MakeInterface:
		fr.vals[in] = x.box(st, in.X.Type(), x.operand(fr, st, in.X))
	case *ssa.Extract:
		t := x.operand(fr, st, in.Tuple).(*TupleV)
		fr.vals[in] = t.Elems[in.Index]
	case *ssa.Field:
		sv := x.operand(fr, st, in.X).(*StructV)
		fr.vals[in] = sv.Fields[in.Field]
	case *ssa.FieldAddr:
		p := x.operand(fr, st, in.X).(*PtrV)
		fr.vals[in] = x.fieldAddr(st, p, in.Field)
	case *ssa.IndexAddr:
		fr.vals[in] = x.indexAddr(fr, st, in)
	case *ssa.Index:
		fr.vals[in] = x.index(fr, st, in)
	case *ssa.Slice:
		fr.vals[in] = x.sliceOp(fr, st, in)
	case *ssa.MakeSlice:
		l := x.operand(fr, st, in.Len).(*Term)
		c := x.operand(fr, st, in.Cap).(*Term)
		l = Resize(l, 64, true)
		c = Resize(c, 64, true)
		x.emitSafe(fr, st, "makeslice", And(BVCmp("bvsle", BVConstU(0, 64), l), BVCmp("bvsle", l, c)), in.Pos())
		st.Assume(And(BVCmp("bvsle", BVConstU(0, 64), l), BVCmp("bvsle", l, c), BVCmp("bvult", c, bv62)))
		et := in.Type().Underlying().(*types.Slice).Elem()
		base := x.newRef(st, "make")
		x.zeroElems(st, base, et)
		fr.vals[in] = &SliceV{base, BVConstU(0, 64), l, c}
		x.recordAlloc(fr, st, "make", c, in.Pos())
	case *ssa.MakeMap:
		ref := x.newRef(st, "map")
		mt := in.Type().Underlying().(*types.Map)
		x.initMap(st, ref, mt)
		fr.vals[in] = ref
	case *ssa.MakeChan:
		fr.vals[in] = x.newRef(st, "chan")
	case *ssa.MakeClosure:
		fv := &FuncV{Fn: in.Fn.(*ssa.Function)}
		for _, b := range in.Bindings {
			fv.Free = append(fv.Free, x.operand(fr, st, b))
		}
		x.escapeArgs(st, fv.Free)
		fr.vals[in] = fv
	case *ssa.Store:
		p := x.operand(fr, st, in.Addr).(*PtrV)
		v := x.operand(fr, st, in.Val)
		if !storeIntoNonEscapingLocal(in.Addr) {
			x.escapeValue(st, v)
		}
		x.StoreTo(st, p, v)
		if !storeRootIsLocal(in.Addr) {
			x.bumpEpoch(st)
		}
	case *ssa.Lookup:
		fr.vals[in] = x.lookup(fr, st, in)
	case *ssa.MapUpdate:
		m := x.operand(fr, st, in.Map).(*Term)
		mt := in.Map.Type().Underlying().(*types.Map)
		kv := x.operand(fr, st, in.Key)
		vv := x.operand(fr, st, in.Value)
		x.escapeValue(st, kv)
		x.escapeValue(st, vv)
		// assignment to an entry of a nil map panics
		nonNil := Neq(m, IntConstI(0))
		x.emitSafe(fr, st, "nilmap", nonNil, in.Pos())
		st.Assume(nonNil)
		x.mapUpdate(st, m, mt, kv, vv)
	case *ssa.Range:
		xv := x.operand(fr, st, in.X)
		if mt, ok := in.X.Type().Underlying().(*types.Map); ok {
			x.fresh++
			key := fmt.Sprintf("$visited:%d", x.fresh)
			ks := x.mapKeySort(mt)
			as := ArraySort(ks, SBool)
			st.ghost[key] = &Term{S: fmt.Sprintf("((as const %s) false)", as.String()), Sort: as}
			fr.vals[in] = &IterV{Map: xv.(*Term), MapT: mt, Visited: key}
		} else {
			unsupported("range over string")
		}
	case *ssa.Next:
		fr.vals[in] = x.next(fr, st, in)
	case *ssa.Send:
		x.onSend(fr, st, in)
	case *ssa.Select:
		fr.vals[in] = x.selectOp(fr, st, in)
	case *ssa.SliceToArrayPointer:
		// (*[n]byte)(s): modelled as a pointer to a copy of the first n bytes (reads only)
		s, ok := x.operand(fr, st, in.X).(*SliceV)
		at := in.Type().(*types.Pointer).Elem()
		n := byteArrayLen(at)
		if !ok || n <= 0 {
			unsupported("slice to array pointer of %s", in.Type())
		}
		enough := BVCmp("bvuge", s.Len, BVConstU(uint64(n), 64))
		x.emitSafe(fr, st, "slice", enough, in.Pos())
		st.Assume(enough)
		bt := types.Typ[types.Uint8]
		var v *Term
		for i := 0; i < n; i++ {
			b := x.loadElem(st, s.Base, BVBin("bvadd", s.Off, BVConstU(uint64(i), 64)), bt).(*Term)
			if v == nil {
				v = b
			} else {
				v = Concat(v, b)
			}
		}
		v = x.nameTerm(st, v, "arrbytes")
		ref := x.newRef(st, "s2a")
		p := &PtrV{Ref: ref, Elem: at}
		x.StoreTo(st, p, v)
		x.note("slice-to-array-pointer conversion modelled as a copy (writes through it do not reach the slice)")
		fr.vals[in] = p
	default:
		unsupported("instruction %T in %s", ins, funcKey(fr.fn))
	}
	return false
}

func (x *Exec) recordAlloc(fr *Frame, st *State, kind string, n *Term, pos token.Pos) {
	// allocation-size bound obligations are produced only when the root contract asks for them
	if x.rootC == nil {
		return
	}
	bound, ok := x.rootC.Attrs["allocbound"]
	if !ok {
		return
	}
	e, err := ParseExpr(bound)
	if err != nil {
		unsupported("bad allocbound expression: %v", err)
	}
	env := x.newSpecEnv(fr, st, nil)
	x.bindRootParams(env)
	b := x.specTerm(env, e)
	b = Resize(b, 64, true)
	x.emitSafe(fr, st, "allocbound", BVCmp("bvsle", n, b), pos)
}

func (x *Exec) bindRootParams(env *SpecEnv) {
	// root params are recorded in x.rootEnv
	if x.rootEnvNames != nil {
		for k, v := range x.rootEnvNames {
			env.names[k] = v
		}
	}
}

func (x *Exec) zeroElems(st *State, base *Term, et types.Type) {
	if _, ok := et.Underlying().(*types.Struct); ok {
		// struct elements: leave unconstrained except by lazily-read zero (not modelled)
		x.note("make([]struct) elements not initialised in the model (sound: unconstrained)")
		return
	}
	cs := x.compsOf(et)
	zs := x.flatten(et, x.zeroValue(et))
	for i, c := range cs {
		name := elemPrefix(et) + c.suffix
		x.heapArr(st, name, SInt, ArraySort(SBV64, c.sort))
		x.heapStoreFwd(st, name, base, x.constArray(c.sort, zs[i]))
	}
}

func (x *Exec) fieldAddr(st *State, p *PtrV, field int) *PtrV {
	named := p.Elem
	u, ok := named.Underlying().(*types.Struct)
	if !ok {
		unsupported("FieldAddr on non-struct %s", named)
	}
	if p.Fld != nil || p.SlEl || p.Inner != nil {
		unsupported("FieldAddr through interior pointer")
	}
	f := u.Field(field)
	owner := structKey(named)
	if _, isS := f.Type().Underlying().(*types.Struct); isS {
		return &PtrV{Ref: x.nameTerm(st, x.subRefSt(st, p.Ref, owner, f.Name()), "sub"), Elem: f.Type()}
	}
	return &PtrV{Ref: p.Ref, Elem: f.Type(), Fld: &FieldLoc{Owner: owner, Name: f.Name(), Type: f.Type()}}
}

func (x *Exec) indexAddr(fr *Frame, st *State, in *ssa.IndexAddr) Value {
	xv := x.operand(fr, st, in.X)
	idx := x.operand(fr, st, in.Index).(*Term)
	_, sgn, _ := intInfo(in.Index.Type())
	idx = Resize(idx, 64, sgn)
	switch s := xv.(type) {
	case *SliceV:
		et := in.X.Type().Underlying().(*types.Slice).Elem()
		inb := BVCmp("bvult", idx, s.Len)
		x.emitSafe(fr, st, "index", inb, in.Pos())
		st.Assume(inb)
		abs := x.nameTerm(st, BVBin("bvadd", s.Off, idx), "ix")
		if _, isS := et.Underlying().(*types.Struct); isS {
			return &PtrV{Ref: x.elemRefSt(st, s.Base, abs), Elem: et}
		}
		return &PtrV{Ref: s.Base, Idx: abs, SlEl: true, Elem: et}
	case *PtrV:
		at := s.Elem.Underlying().(*types.Array)
		inb := BVCmp("bvult", idx, BVConstU(uint64(at.Len()), 64))
		x.emitSafe(fr, st, "index", inb, in.Pos())
		st.Assume(inb)
		if s.Backed {
			return &PtrV{Ref: s.Ref, Idx: idx, SlEl: true, Elem: at.Elem()}
		}
		if byteArrayLen(s.Elem) > 0 {
			return &PtrV{Inner: s, Idx: idx, Elem: at.Elem(), Ref: s.Ref}
		}
		if s.Fld != nil || s.SlEl || s.Inner != nil {
			unsupported("IndexAddr on interior array pointer")
		}
		if _, isS := at.Elem().Underlying().(*types.Struct); isS {
			return &PtrV{Ref: x.elemRefSt(st, s.Ref, idx), Elem: at.Elem()}
		}
		return &PtrV{Ref: s.Ref, Idx: idx, SlEl: true, Elem: at.Elem()}
	}
	unsupported("IndexAddr on %T", xv)
	return nil
}

func (x *Exec) index(fr *Frame, st *State, in *ssa.Index) Value {
	xv := x.operand(fr, st, in.X)
	idx := x.operand(fr, st, in.Index).(*Term)
	_, sgn, _ := intInfo(in.Index.Type())
	idx = Resize(idx, 64, sgn)
	if n := byteArrayLen(in.X.Type()); n > 0 {
		inb := BVCmp("bvult", idx, BVConstU(uint64(n), 64))
		x.emitSafe(fr, st, "index", inb, in.Pos())
		st.Assume(inb)
		return byteOfArray(xv.(*Term), idx)
	}
	if isString(in.X.Type()) {
		s := xv.(*Term)
		inb := BVCmp("bvult", idx, x.strLen(s))
		x.emitSafe(fr, st, "index", inb, in.Pos())
		st.Assume(inb)
		return x.D.Fun("strat", SBV8, s, idx)
	}
	if a, ok := xv.(*ArrSym); ok {
		at := in.X.Type().Underlying().(*types.Array)
		inb := BVCmp("bvult", idx, BVConstU(uint64(at.Len()), 64))
		x.emitSafe(fr, st, "index", inb, in.Pos())
		st.Assume(inb)
		var ts []*Term
		for _, c := range a.Comps {
			ts = append(ts, Select(c, idx))
		}
		v, _ := x.unflatten(at.Elem(), ts)
		return v
	}
	unsupported("Index on %s", in.X.Type())
	return nil
}

func (x *Exec) sliceOp(fr *Frame, st *State, in *ssa.Slice) Value {
	xv := x.operand(fr, st, in.X)
	get := func(v ssa.Value) *Term {
		if v == nil {
			return nil
		}
		t := x.operand(fr, st, v).(*Term)
		_, sgn, _ := intInfo(v.Type())
		return Resize(t, 64, sgn)
	}
	lo, hi, mx := get(in.Low), get(in.High), get(in.Max)
	zero := BVConstU(0, 64)
	switch s := xv.(type) {
	case *SliceV:
		if lo == nil {
			lo = zero
		}
		if hi == nil {
			hi = s.Len
		}
		capLim := s.Cap
		if mx != nil {
			capLim = mx
		}
		ok := And(BVCmp("bvule", lo, hi), BVCmp("bvule", hi, capLim), BVCmp("bvule", capLim, s.Cap))
		x.emitSafe(fr, st, "slice", ok, in.Pos())
		st.Assume(ok)
		return &SliceV{s.Base, x.nameTerm(st, BVBin("bvadd", s.Off, lo), "so"), x.nameTerm(st, BVBin("bvsub", hi, lo), "sl"), x.nameTerm(st, BVBin("bvsub", capLim, lo), "sc")}
	case *PtrV:
		// slicing a pointer to array
		if s.Backed {
			n := BVConstU(uint64(byteArrayLen(s.Elem)), 64)
			if lo == nil {
				lo = zero
			}
			if hi == nil {
				hi = n
			}
			ok := And(BVCmp("bvule", lo, hi), BVCmp("bvule", hi, n))
			x.emitSafe(fr, st, "slice", ok, in.Pos())
			st.Assume(ok)
			sl := &SliceV{s.Ref, lo, BVBin("bvsub", hi, lo), BVBin("bvsub", n, lo)}
			if lo.IsConst && lo.BVal.Sign() == 0 && hi.S == n.S {
				// the whole array as a slice: its byte sequence is a function of the array value
				nb := byteArrayLen(s.Elem)
				arr := x.nameTerm(st, x.Load(st, s).(*Term), "arrval")
				sq := x.seqOf(st, sl)
				st.Assume(Eq(sq, x.D.Fun(fmt.Sprintf("seqofarr%d", nb), SSeq, arr)))
				st.Assume(Eq(x.D.Fun(fmt.Sprintf("arrofseq%d", nb), arr.Sort, sq), arr))
			}
			return sl
		}
		if at, ok := backedArray(s.Elem); ok {
			if s.Fld != nil || s.SlEl || s.Inner != nil {
				unsupported("slice of interior array pointer")
			}
			n := BVConstU(uint64(at.Len()), 64)
			if lo == nil {
				lo = zero
			}
			if hi == nil {
				hi = n
			}
			ok := And(BVCmp("bvule", lo, hi), BVCmp("bvule", hi, n))
			x.emitSafe(fr, st, "slice", ok, in.Pos())
			st.Assume(ok)
			return &SliceV{s.Ref, lo, BVBin("bvsub", hi, lo), BVBin("bvsub", n, lo)}
		}
		n := byteArrayLen(s.Elem)
		arr := x.Load(st, s).(*Term)
		sl := x.sliceOfByteArray(st, arr, n)
		if lo == nil {
			lo = zero
		}
		if hi == nil {
			hi = sl.Len
		}
		ok := And(BVCmp("bvule", lo, hi), BVCmp("bvule", hi, sl.Cap))
		x.emitSafe(fr, st, "slice", ok, in.Pos())
		st.Assume(ok)
		x.note("slice of array pointer is modelled as a copy (writes through it do not reach the array)")
		return &SliceV{sl.Base, BVBin("bvadd", sl.Off, lo), BVBin("bvsub", hi, lo), BVBin("bvsub", sl.Cap, lo)}
	case *Term:
		if isString(in.X.Type()) {
			if lo == nil {
				lo = zero
			}
			if hi == nil {
				hi = x.strLen(s)
			}
			ok := And(BVCmp("bvule", lo, hi), BVCmp("bvule", hi, x.strLen(s)))
			x.emitSafe(fr, st, "slice", ok, in.Pos())
			st.Assume(ok)
			r := x.D.Fun("substr", SStr, s, lo, hi)
			st.Assume(Eq(x.strLen(r), BVBin("bvsub", hi, lo)))
			return r
		}
	}
	unsupported("Slice on %T", xv)
	return nil
}

// sliceOfByteArray materialises a fresh []byte whose contents are the bytes of arr.
func (x *Exec) sliceOfByteArray(st *State, arr *Term, n int) *SliceV {
	base := x.newRef(st, "arr")
	bt := types.Typ[types.Uint8]
	a := x.freshSym("arrbytes", ArraySort(SBV64, SBV8))
	for i := 0; i < n; i++ {
		st.Assume(Eq(Select(a, BVConstU(uint64(i), 64)), byteOfArray(arr, BVConstU(uint64(i), 64))))
	}
	x.setElemArray(st, base, bt, a)
	sl := &SliceV{base, BVConstU(0, 64), BVConstU(uint64(n), 64), BVConstU(uint64(n), 64)}
	// the sequence of this slice is a function of the array value only
	sq := x.seqOf(st, sl)
	st.Assume(Eq(sq, x.D.Fun(fmt.Sprintf("seqofarr%d", n), SSeq, arr)))
	// seqofarrN is injective: instance of its inverse
	st.Assume(Eq(x.D.Fun(fmt.Sprintf("arrofseq%d", n), arr.Sort, sq), arr))
	st.Assume(Eq(x.seqLen(sq), BVConstU(uint64(n), 64)))
	return sl
}

// ---------- boxing / type assertion ----------

func (x *Exec) box(st *State, t types.Type, v Value) *IfaceV {
	if _, ok := t.Underlying().(*types.Interface); ok {
		return v.(*IfaceV)
	}
	if _, isPtr := t.Underlying().(*types.Pointer); !isPtr {
		// the value is copied into a box on the heap: references inside it are stored there
		x.escapeValue(st, v)
	}
	tag := x.tagOf(t)
	if _, ok := t.Underlying().(*types.Pointer); ok {
		p := v.(*PtrV)
		if p.Fld != nil || p.SlEl || p.Inner != nil {
			// a pointer to a field or element: boxed as an opaque reference. It can be handed to a
			// callee (which is then treated as writing the whole heap unless it is pure) but not
			// unboxed by the code under verification.
			r := x.freshSym("boxint", SInt)
			st.ghost["$opaquebox:"+r.S] = TTrue
			return &IfaceV{tag, r}
		}
		return &IfaceV{tag, p.Ref}
	}
	switch t.Underlying().(type) {
	case *types.Map, *types.Chan:
		return &IfaceV{tag, v.(*Term)}
	}
	ref := x.newRef(st, "box")
	x.StoreTo(st, &PtrV{Ref: ref, Elem: t}, v)
	return &IfaceV{tag, ref}
}

func (x *Exec) unbox(st *State, t types.Type, i *IfaceV) Value {
	if _, opaque := st.ghost["$opaquebox:"+i.Ref.S]; opaque {
		unsupported("unboxing a boxed interior pointer")
	}
	if pt, ok := t.Underlying().(*types.Pointer); ok {
		return &PtrV{Ref: i.Ref, Elem: pt.Elem()}
	}
	switch t.Underlying().(type) {
	case *types.Map, *types.Chan:
		return i.Ref
	}
	return x.Load(st, &PtrV{Ref: i.Ref, Elem: t})
}

func (x *Exec) implementsTerm(tag *Term, it types.Type) *Term {
	// exact when tag is a known constant
	if tag.IsConst {
		id := int(tag.BVal.Int64())
		if id == 0 {
			return TFalse
		}
		if ct, ok := x.tagTypes[id]; ok {
			return BoolConst(types.Implements(ct, it.Underlying().(*types.Interface)))
		}
	}
	return x.D.Fun(smtName("implements:"+typeKey(it)), SBool, tag)
}

func (x *Exec) doTypeAssert(fr *Frame, st *State, in *ssa.TypeAssert, cont func(*Frame, *State), k func(*pathEnd)) {
	iv := x.operand(fr, st, in.X).(*IfaceV)
	_, toIface := in.AssertedType.Underlying().(*types.Interface)
	var ok *Term
	if toIface {
		ok = And(Neq(iv.Tag, IntConstI(0)), x.implementsTerm(iv.Tag, in.AssertedType))
		if types.Identical(in.X.Type().Underlying(), in.AssertedType.Underlying()) || implementsStatically(in.X.Type(), in.AssertedType) {
			ok = Neq(iv.Tag, IntConstI(0))
		}
	} else {
		ok = Eq(iv.Tag, x.tagOf(in.AssertedType))
	}
	if !in.CommaOk {
		x.emitSafe(fr, st, "assert", ok, in.Pos())
		st.Assume(ok)
		if toIface {
			fr.vals[in] = iv
		} else {
			fr.vals[in] = x.unbox(st, in.AssertedType, iv)
		}
		cont(fr, st)
		return
	}
	mk := func(fr2 *Frame, st2 *State, good bool) {
		var v Value
		if good {
			if toIface {
				v = iv
			} else {
				v = x.unbox(st2, in.AssertedType, iv)
			}
		} else {
			v = x.zeroValue(in.AssertedType)
		}
		fr2.vals[in] = &TupleV{[]Value{v, BoolConst(good)}}
		cont(fr2, st2)
	}
	if ok.IsConst {
		mk(fr, st, ok.BoolVal)
		return
	}
	x.fork(fr, st, ok, func(f *Frame, s *State) { mk(f, s, true) }, func(f *Frame, s *State) { mk(f, s, false) })
}

func implementsStatically(from, to types.Type) bool {
	fi, ok1 := from.Underlying().(*types.Interface)
	ti, ok2 := to.Underlying().(*types.Interface)
	if !ok1 || !ok2 {
		return false
	}
	// every dynamic type of `from` implements `to` iff to's methods are a subset of from's
	for i := 0; i < ti.NumMethods(); i++ {
		m := ti.Method(i)
		found := false
		for j := 0; j < fi.NumMethods(); j++ {
			if fi.Method(j).Name() == m.Name() {
				found = true
				break
			}
		}
		if !found {
			return false
		}
	}
	return true
}

// ---------- unary / binary / conversions ----------

func (x *Exec) unop(fr *Frame, st *State, in *ssa.UnOp) Value {
	v := x.operand(fr, st, in.X)
	switch in.Op {
	case token.MUL: // load
		p := v.(*PtrV)
		lv := x.nameValue(st, in.Type(), x.Load(st, p), in.Name())
		if g, ok := in.X.(*ssa.Global); ok {
			if iv, ok := lv.(*IfaceV); ok && x.P.sentinelError(g) {
				// a package-level error variable initialised once with errors.New / fmt.Errorf and never
				// reassigned anywhere in the module: non-nil, and identified by its variable
				st.Assume(Neq(iv.Tag, IntConstI(0)))
			}
		}
		return lv
	case token.NOT:
		return Not(v.(*Term))
	case token.SUB:
		t := v.(*Term)
		if t.Sort.K == KFP64 {
			return App("fp.neg", SFP64, t)
		}
		return BVNeg(t)
	case token.XOR:
		return BVNot(v.(*Term))
	case token.ARROW:
		// channel receive: fresh value
		ct := in.X.Type().Underlying().(*types.Chan)
		rv := x.freshValue(st, ct.Elem(), "recv")
		x.onRecv(fr, st, in, rv)
		if in.CommaOk {
			return &TupleV{[]Value{rv, x.freshSym("recvok", SBool)}}
		}
		return rv
	}
	unsupported("unary op %s", in.Op)
	return nil
}

func (x *Exec) binop(fr *Frame, st *State, op token.Token, tx, ty types.Type, a, b Value, pos token.Pos) Value {
	// interface / pointer / slice / map comparisons
	switch av := a.(type) {
	case *IfaceV:
		bv := b.(*IfaceV)
		var eq *Term
		if isNilIface(av) {
			eq = Eq(bv.Tag, IntConstI(0))
		} else if isNilIface(bv) {
			eq = Eq(av.Tag, IntConstI(0))
		} else {
			same := And(Eq(av.Tag, bv.Tag), Eq(av.Ref, bv.Ref))
			r := x.freshSym("ifaceeq", SBool)
			st.Assume(Implies(same, r))
			st.Assume(Implies(r, Eq(av.Tag, bv.Tag)))
			eq = r
		}
		if op == token.EQL {
			return eq
		}
		return Not(eq)
	case *PtrV:
		bv := b.(*PtrV)
		if av.Fld != nil || bv.Fld != nil || av.SlEl || bv.SlEl {
			unsupported("comparison of interior pointers")
		}
		eq := Eq(av.Ref, bv.Ref)
		if op == token.EQL {
			return eq
		}
		return Not(eq)
	case *SliceV:
		bv := b.(*SliceV)
		var eq *Term
		if bv.Base.IsConst {
			eq = Eq(av.Base, IntConstI(0))
		} else {
			eq = Eq(bv.Base, IntConstI(0))
		}
		if op == token.EQL {
			return eq
		}
		return Not(eq)
	case *FuncV:
		bv := b.(*FuncV)
		var eq *Term
		if av.Fn != nil || bv.Fn != nil {
			eq = TFalse // comparing a concrete function with nil
		} else {
			eq = Eq(av.Sym, bv.Sym)
		}
		if op == token.EQL {
			return eq
		}
		return Not(eq)
	case *StructV:
		bv := b.(*StructV)
		eq := x.structEq(av, bv)
		if op == token.EQL {
			return eq
		}
		return Not(eq)
	}
	at := a.(*Term)
	bt := b.(*Term)
	switch at.Sort.K {
	case KBool:
		switch op {
		case token.EQL:
			return Eq(at, bt)
		case token.NEQ:
			return Neq(at, bt)
		case token.LAND:
			return And(at, bt)
		case token.LOR:
			return Or(at, bt)
		}
	case KInt: // map / chan refs
		switch op {
		case token.EQL:
			return Eq(at, bt)
		case token.NEQ:
			return Neq(at, bt)
		}
	case KUnint: // strings
		switch op {
		case token.EQL:
			return Eq(at, bt)
		case token.NEQ:
			return Neq(at, bt)
		case token.ADD:
			r := x.D.Fun("strcat", SStr, at, bt)
			st.Assume(Eq(x.strLen(r), BVBin("bvadd", x.strLen(at), x.strLen(bt))))
			return r
		case token.LSS, token.LEQ, token.GTR, token.GEQ:
			lt := x.D.Fun("strlt", SBool, at, bt)
			gt := x.D.Fun("strlt", SBool, bt, at)
			switch op {
			case token.LSS:
				return lt
			case token.GTR:
				return gt
			case token.LEQ:
				return Not(gt)
			case token.GEQ:
				return Not(lt)
			}
		}
	case KFP64:
		return x.fpBinop(op, at, bt)
	case KBV:
		w, signed, ok := intInfo(tx)
		if !ok {
			// byte arrays compared as bit-vectors
			switch op {
			case token.EQL:
				return Eq(at, bt)
			case token.NEQ:
				return Neq(at, bt)
			}
			unsupported("binop %s on %s", op, tx)
		}
		switch op {
		case token.ADD:
			return BVBin("bvadd", at, bt)
		case token.SUB:
			return BVBin("bvsub", at, bt)
		case token.MUL:
			return BVBin("bvmul", at, bt)
		case token.QUO, token.REM:
			nz := Neq(bt, BVConstU(0, w))
			x.emitSafe(fr, st, "div", nz, pos)
			st.Assume(nz)
			if signed {
				if op == token.QUO {
					return BVBin("bvsdiv", at, bt)
				}
				return BVBin("bvsrem", at, bt)
			}
			if op == token.QUO {
				return BVBin("bvudiv", at, bt)
			}
			return BVBin("bvurem", at, bt)
		case token.AND:
			return BVBin("bvand", at, bt)
		case token.OR:
			return BVBin("bvor", at, bt)
		case token.XOR:
			return BVBin("bvxor", at, bt)
		case token.AND_NOT:
			return BVBin("bvand", at, BVNot(bt))
		case token.SHL, token.SHR:
			return shiftOp(op, at, bt, w, signed, ty)
		case token.EQL:
			return Eq(at, bt)
		case token.NEQ:
			return Neq(at, bt)
		case token.LSS, token.LEQ, token.GTR, token.GEQ:
			pfx := "bvu"
			if signed {
				pfx = "bvs"
			}
			m := map[token.Token]string{token.LSS: "lt", token.LEQ: "le", token.GTR: "gt", token.GEQ: "ge"}
			return BVCmp(pfx+m[op], at, bt)
		}
	}
	unsupported("binop %s on %s", op, tx)
	return nil
}

func shiftOp(op token.Token, a, b *Term, w int, signed bool, ty types.Type) *Term {
	// shift count: unsigned semantic (negative count panics in Go; not modelled)
	bw := b.Sort.W
	var amt *Term
	var tooBig *Term = TFalse
	if bw > w {
		tooBig = BVCmp("bvuge", b, BVConstU(uint64(w), bw))
		amt = Extract(w-1, 0, b)
	} else {
		amt = ZeroExt(w-bw, b)
	}
	var r, sat *Term
	switch {
	case op == token.SHL:
		r = BVBin("bvshl", a, amt)
		sat = BVConstU(0, w)
	case signed:
		r = App("bvashr", a.Sort, a, amt)
		sat = App("bvashr", a.Sort, a, BVConstU(uint64(w-1), w))
	default:
		r = BVBin("bvlshr", a, amt)
		sat = BVConstU(0, w)
	}
	return Ite(tooBig, sat, r)
}

func isNilIface(i *IfaceV) bool { return i.Tag.IsConst && i.Tag.BVal.Sign() == 0 }

func (x *Exec) structEq(a, b *StructV) *Term {
	var cs []*Term
	for i := range a.Fields {
		ft := a.T.Field(i).Type()
		fa := x.flatten(ft, a.Fields[i])
		fb := x.flatten(ft, b.Fields[i])
		for j := range fa {
			cs = append(cs, Eq(fa[j], fb[j]))
		}
	}
	return And(cs...)
}

func (x *Exec) fpBinop(op token.Token, a, b *Term) Value {
	switch op {
	case token.ADD:
		return App("fp.add RNE", SFP64, a, b)
	case token.SUB:
		return App("fp.sub RNE", SFP64, a, b)
	case token.MUL:
		return App("fp.mul RNE", SFP64, a, b)
	case token.QUO:
		return App("fp.div RNE", SFP64, a, b)
	case token.EQL:
		return App("fp.eq", SBool, a, b)
	case token.NEQ:
		return Not(App("fp.eq", SBool, a, b))
	case token.LSS:
		return App("fp.lt", SBool, a, b)
	case token.LEQ:
		return App("fp.leq", SBool, a, b)
	case token.GTR:
		return App("fp.gt", SBool, a, b)
	case token.GEQ:
		return App("fp.geq", SBool, a, b)
	}
	unsupported("float op %s", op)
	return nil
}

func (x *Exec) convert(st *State, from, to types.Type, v Value) Value {
	if wt, _, ok := intInfo(to); ok {
		if _, sf, ok2 := intInfo(from); ok2 {
			return Resize(v.(*Term), wt, sf)
		}
		if isFloat(from) {
			_, st2, _ := intInfo(to)
			if st2 {
				return &Term{S: fmt.Sprintf("((_ fp.to_sbv %d) RTZ %s)", wt, v.(*Term).S), Sort: BV(wt)}
			}
			return &Term{S: fmt.Sprintf("((_ fp.to_ubv %d) RTZ %s)", wt, v.(*Term).S), Sort: BV(wt)}
		}
		if u, ok := from.Underlying().(*types.Basic); ok && u.Kind() == types.UnsafePointer {
			unsupported("unsafe pointer conversion")
		}
	}
	if isFloat(to) {
		if _, sf, ok := intInfo(from); ok {
			t := v.(*Term)
			if sf {
				return &Term{S: fmt.Sprintf("((_ to_fp 11 53) RNE %s)", t.S), Sort: SFP64}
			}
			return &Term{S: fmt.Sprintf("((_ to_fp_unsigned 11 53) RNE %s)", t.S), Sort: SFP64}
		}
		if isFloat(from) {
			return v
		}
	}
	if isString(to) {
		if sl, ok := v.(*SliceV); ok {
			sq := x.seqOf(st, sl)
			st.Assume(Eq(x.seqLen(sq), sl.Len))
			r := x.D.Fun("str_of_seq", SStr, sq)
			st.Assume(Eq(x.strLen(r), sl.Len))
			// string(b) and []byte(s) are mutually inverse (instance for this term)
			st.Assume(Eq(x.D.Fun("seq_of_str", SSeq, r), sq))
			return r
		}
		if isString(from) {
			return v
		}
		if _, _, ok := intInfo(from); ok {
			return x.D.Fun("str_of_rune", SStr, Resize(v.(*Term), 64, true))
		}
	}
	if sl, ok := to.Underlying().(*types.Slice); ok {
		if isString(from) {
			if b, ok := sl.Elem().Underlying().(*types.Basic); ok && b.Kind() == types.Uint8 {
				s := v.(*Term)
				base := x.newRef(st, "bytes")
				n := x.strLen(s)
				st.Assume(BVCmp("bvult", n, bv62))
				r := &SliceV{base, BVConstU(0, 64), n, n}
				a := x.freshSym("strbytes", ArraySort(SBV64, SBV8))
				x.setElemArray(st, base, sl.Elem(), a)
				sq := x.seqOf(st, r)
				st.Assume(Eq(sq, x.D.Fun("seq_of_str", SSeq, s)))
				st.Assume(Eq(x.seqLen(sq), n))
				st.Assume(Eq(x.D.Fun("str_of_seq", SStr, sq), s))
				return r
			}
		}
		if _, ok := from.Underlying().(*types.Slice); ok {
			return v
		}
	}
	if types.Identical(from.Underlying(), to.Underlying()) {
		return v
	}
	if _, ok := to.Underlying().(*types.Pointer); ok {
		if p, ok := v.(*PtrV); ok {
			n := *p
			n.Elem = to.Underlying().(*types.Pointer).Elem()
			return &n
		}
	}
	unsupported("conversion %s -> %s", from, to)
	return nil
}

func (x *Exec) changeType(from, to types.Type, v Value) Value {
	if p, ok := v.(*PtrV); ok {
		if pt, ok := to.Underlying().(*types.Pointer); ok {
			n := *p
			n.Elem = pt.Elem()
			return &n
		}
	}
	if sv, ok := v.(*StructV); ok {
		if ts, ok := to.Underlying().(*types.Struct); ok {
			return &StructV{T: ts, Fields: sv.Fields}
		}
	}
	return v
}
