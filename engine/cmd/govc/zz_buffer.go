package main

// bytes.Buffer as used by the protocol send and read loops: the unread portion of the buffer is a
// byte slice kept in ghost arrays BUF.base / BUF.off / BUF.len indexed by the buffer object.
//   NewBuffer(b)  a fresh buffer whose unread portion is b itself (Go documents that the buffer takes
//                 ownership of b)
//   Bytes()       the unread portion (the same slice until the next write)
//   Len()         its length
//   Write(p)      the unread portion becomes a freshly allocated slice holding old ++ p (modelled as
//                 always reallocating); returns len(p), nil
//   Reset()       the unread portion becomes empty
// bufdata(b) in contracts is that slice. Only these five operations are modelled; any other method
// call on a Buffer is an uncontracted call and forgets the heap.

import (
	"go/types"

	"golang.org/x/tools/go/ssa"
)

// bufferModel: dispatched before the generic intrinsics, without counting the receiver as escaped - a
// buffer created by the function under verification stays private to it (no callee can reach it), so
// what is known about it survives calls of unknown functions.
var bufferModel = map[string]intrinsicFn{}

func init() {
	bufferModel["bytes.NewBuffer"] = bufNew
	bufferModel["bytes.(*Buffer).Bytes"] = bufBytes
	bufferModel["bytes.(*Buffer).Len"] = bufLen
	bufferModel["bytes.(*Buffer).Write"] = bufWrite
	bufferModel["bytes.(*Buffer).Reset"] = bufReset
	pureIntrinsics["bytes.(*Buffer).Bytes"] = true
	pureIntrinsics["bytes.(*Buffer).Len"] = true
}

// bufferWrites: the heap arrays each modelled operation may write (for the loop-head analysis).
var bufferWrites = map[string][]string{
	"bytes.NewBuffer":       {"BUF.base", "BUF.off", "BUF.len"},
	"bytes.(*Buffer).Write": {"BUF.base", "BUF.off", "BUF.len", "E:uint8"},
	"bytes.(*Buffer).Reset": {"BUF.base", "BUF.off", "BUF.len"},
}

func (x *Exec) bufArrays(st *State) (base, off, ln *Term) {
	base = x.heapArr(st, "BUF.base", SInt, SInt)
	off = x.heapArr(st, "BUF.off", SInt, SBV64)
	ln = x.heapArr(st, "BUF.len", SInt, SBV64)
	return
}

func (x *Exec) bufGet(st *State, ref *Term) *SliceV {
	x.note("model: bytes.Buffer (NewBuffer / Bytes / Len / Write / Reset; the unread portion is a byte slice in ghost state, Write always reallocates)")
	b, o, l := x.bufArrays(st)
	s := &SliceV{Base: x.heapSelect(st, "BUF.base", b, ref), Off: x.heapSelect(st, "BUF.off", o, ref), Len: x.heapSelect(st, "BUF.len", l, ref)}
	s.Cap = s.Len
	st.Assume(BVCmp("bvult", s.Len, bv62))
	st.Assume(BVCmp("bvult", s.Off, bv62))
	return s
}

func (x *Exec) bufSet(st *State, ref *Term, s *SliceV) {
	x.bufArrays(st)
	x.heapStoreFwd(st, "BUF.base", ref, s.Base)
	x.heapStoreFwd(st, "BUF.off", ref, s.Off)
	x.heapStoreFwd(st, "BUF.len", ref, s.Len)
}

func bufRef(v Value) *Term {
	if p, ok := v.(*PtrV); ok {
		return p.Ref
	}
	unsupported("bytes.Buffer method on a non-pointer receiver")
	return nil
}

func bufNew(x *Exec, fr *Frame, st *State, c *ssa.CallCommon, args []Value) Value {
	s := args[0].(*SliceV)
	ref := x.newRef(st, "buffer")
	st.markPrivate(ref)
	x.bufSet(st, ref, s)
	return &PtrV{Ref: ref, Elem: c.Signature().Results().At(0).Type().(*types.Pointer).Elem()}
}

func bufBytes(x *Exec, fr *Frame, st *State, c *ssa.CallCommon, args []Value) Value {
	return x.bufGet(st, bufRef(args[0]))
}

func bufLen(x *Exec, fr *Frame, st *State, c *ssa.CallCommon, args []Value) Value {
	return x.bufGet(st, bufRef(args[0])).Len
}

func bufWrite(x *Exec, fr *Frame, st *State, c *ssa.CallCommon, args []Value) Value {
	ref := bufRef(args[0])
	p := args[1].(*SliceV)
	old := x.bufGet(st, ref)
	bt := types.Typ[types.Uint8]
	newLen := x.nameTerm(st, BVBin("bvadd", old.Len, p.Len), "buflen")
	st.Assume(BVCmp("bvult", newLen, bv62))
	base := x.newRef(st, "bufdata")
	x.zeroElems(st, base, bt)
	nw := &SliceV{Base: base, Off: BVConstU(0, 64), Len: newLen, Cap: newLen}
	// contents: old ++ p
	st.Assume(Eq(x.seqOf(st, nw), x.seqCat(st, x.seqOf(st, old), x.seqOf(st, p))))
	x.bufSet(st, ref, nw)
	return &TupleV{[]Value{p.Len, &IfaceV{IntConstI(0), IntConstI(0)}}}
}

func bufReset(x *Exec, fr *Frame, st *State, c *ssa.CallCommon, args []Value) Value {
	ref := bufRef(args[0])
	old := x.bufGet(st, ref)
	x.bufSet(st, ref, &SliceV{Base: old.Base, Off: old.Off, Len: BVConstU(0, 64), Cap: BVConstU(0, 64)})
	return nil
}
