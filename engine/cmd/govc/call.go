package main

// Calls: contracts at call sites, inlining, intrinsics, havoc.

import (
	"os"
	"sort"
	"fmt"
	"go/types"
	"strings"

	"golang.org/x/tools/go/ssa"
)

type callK func(fr *Frame, st *State, res Value)

func (x *Exec) ifaceMethodKey(c *ssa.CallCommon) string {
	it := c.Value.Type()
	name := typeKey(it)
	return name + "." + c.Method.Name()
}

func (x *Exec) isPureInvoke(c *ssa.CallCommon) bool {
	// String() and Error() without arguments are formatting getters on every type this code base uses
	if (c.Method.Name() == "String" || c.Method.Name() == "Error") && len(c.Args) == 0 {
		return true
	}
	return x.CS.IsPure(typeKey(c.Value.Type()), c.Method.Name())
}

// isLoggingCall: anything in log/slog neither reads nor writes program state that matters here;
// results are fresh values (trusted-base item "logging has no effect on verified state").
func isLoggingKey(key string) bool {
	return strings.HasPrefix(key, "log/slog.") || strings.HasPrefix(key, "log.")
}

// ifaceUFName names the uninterpreted function of a pure interface method: by method name and
// signature only, because dynamic dispatch on (type tag, receiver) reaches the same concrete method
// whatever the static interface type of the call site is.
func ifaceUFName(method string, sig string) string { return "im:" + method + ":" + sig }

func sigString(sig *types.Signature) string {
	s := types.NewSignatureType(nil, nil, nil, sig.Params(), sig.Results(), sig.Variadic())
	return types.TypeString(s, func(p *types.Package) string { return p.Name() })
}

func (x *Exec) doCall(fr *Frame, st *State, in ssa.Instruction, c *ssa.CallCommon, ret callK, k func(*pathEnd)) {
	var args []Value
	if c.IsInvoke() {
		recv := x.operand(fr, st, c.Value)
		for _, a := range c.Args {
			args = append(args, x.operand(fr, st, a))
		}
		if fr.isRoot && x.rootC != nil && x.rootC.Attrs["trackcalls"] != "" {
			// interface method calls made by the function under verification are call events too:
			// called("Iface.Method") / callres / callarg (the receiver is not an argument)
			key := x.ifaceMethodKey(c)
			short := key[strings.LastIndex(key, "/")+1:]
			x.tokenEvent(st, st, "call", key, nil)
			orig := ret
			sig := c.Signature()
			rt := x.resultType(c)
			argsCopy := append([]Value(nil), args...)
			ret = func(f *Frame, s *State, res Value) {
				s.ghost["$call:"+short] = &callRecord{args: argsCopy, res: res, sig: sig, rt: rt}
				orig(f, s, res)
			}
		}
		x.invoke(fr, st, c, recv.(*IfaceV), args, ret, k)
		return
	}
	for _, a := range c.Args {
		args = append(args, x.operand(fr, st, a))
	}
	if b, ok := c.Value.(*ssa.Builtin); ok {
		ret(fr, st, x.builtin(fr, st, b, c, args))
		return
	}
	fv := x.operand(fr, st, c.Value)
	x.callValue(fr, st, c, fv, args, in, ret, k)
}

func (x *Exec) resultType(c *ssa.CallCommon) types.Type {
	sig := c.Signature()
	switch sig.Results().Len() {
	case 0:
		return nil
	case 1:
		return sig.Results().At(0).Type()
	}
	return sig.Results()
}

func (x *Exec) callValue(fr *Frame, st *State, c *ssa.CallCommon, fval Value, args []Value, in ssa.Instruction, ret callK, k func(*pathEnd)) {
	if c.IsInvoke() {
		x.invoke(fr, st, c, fval.(*IfaceV), args, ret, k)
		return
	}
	if b, ok := c.Value.(*ssa.Builtin); ok {
		if b.Name() != "len" && b.Name() != "cap" {
			x.escapeArgs(st, args)
		}
		ret(fr, st, x.builtin(fr, st, b, c, args))
		return
	}
	fv, _ := fval.(*FuncV)
	if fv == nil || fv.Fn == nil {
		// symbolic function value: callback obligations, then havoc
		x.escapeArgs(st, args)
		x.callbackCall(fr, st, c, fv, args)
		src := x.sourceName(fr, c.Value)
		if i := strings.LastIndex(src, "."); i >= 0 {
			src = src[i+1:]
		}
		if x.CS.PureIface["purefunc:"+src] {
			x.note("assumed-pure function value: " + src)
		} else {
			x.havocCall(fr, st, c, args, "function value")
		}
		res := x.freshResult(st, x.resultType(c), "cb")
		if x.isDetFuncName(src) && fv != nil && fv.Sym != nil {
			x.note("assumed-deterministic function value: " + src)
			res = x.detFuncResults(st, fv.Sym, c.Signature(), args)
		}
		if fr.isRoot && x.rootC != nil && x.rootC.Attrs["trackcalls"] != "" {
			st.ghost["$call:"+x.sourceName(fr, c.Value)] = &callRecord{args: append([]Value(nil), args...), res: res, sig: c.Signature(), rt: x.resultType(c)}
		}
		ret(fr, st, res)
		return
	}
	fn := fv.Fn
	key := funcKey(fn)
	x.checkCallEvent(fr, st, key, c, args)
	if fr.isRoot && x.rootC != nil && x.rootC.Attrs["trackcalls"] != "" {
		// record arguments and result of calls made by the function under verification, for
		// called(F) / callres(F) / callarg(F, i) in its postconditions
		short := key[strings.LastIndex(key, "/")+1:]
		orig := ret
		sig := c.Signature()
		rt := x.resultType(c)
		argsCopy := append([]Value(nil), args...)
		ret = func(f *Frame, s *State, res Value) {
			s.ghost["$call:"+short] = &callRecord{args: argsCopy, res: res, sig: sig, rt: rt}
			x.tokenReturnEvent(s, key, res)
			orig(f, s, res)
		}
	}
	if h, ok := bufferModel[key]; ok {
		// bytes.Buffer model (zz_buffer.go): the receiver does not escape; a written slice does not
		// either (its bytes are copied)
		ret(fr, st, h(x, fr, st, c, args))
		return
	}
	if h, ok := intrinsics[key]; ok {
		x.escapeArgs(st, args)
		ret(fr, st, h(x, fr, st, c, args))
		return
	}
	if isSlicesDelete(key) {
		ret(fr, st, slicesDelete(x, fr, st, c, args))
		return
	}
	if key == "sync.(*Once).Do" && len(args) == 2 {
		x.escapeArgs(st, args)
		// Once.Do(f): f runs at most once - explore both "f is called now" and "f was called before"
		if cl, ok := args[1].(*FuncV); ok && cl.Fn != nil && cl.Fn.Blocks != nil {
			x.note("intrinsic sync.Once.Do: both outcomes (closure runs / already ran) explored")
			cond := x.freshSym("once.first", SBool)
			x.fork(fr, st, cond, func(f2 *Frame, s2 *State) {
				x.inline(f2, s2, cl.Fn, cl, nil, func(f3 *Frame, s3 *State, _ Value) { ret(f3, s3, nil) }, k)
			}, func(f2 *Frame, s2 *State) {
				ret(f2, s2, nil)
			})
			return
		}
	}
	if fn.Name() == "init" && fn.Synthetic == "package initializer" && fn != fr.fn {
		// the initialiser of an imported package: it cannot reach the package-level variables of the
		// package being initialised (import cycles are impossible), so it is a no-op here
		x.note("imported package initialiser treated as a no-op: " + key)
		ret(fr, st, nil)
		return
	}
	if isLoggingKey(key) {
		x.escapeArgs(st, args)
		x.note("intrinsic logging call treated as effect-free: " + key)
		ret(fr, st, x.freshResult(st, x.resultType(c), "log"))
		return
	}
	if strings.HasPrefix(key, "math/big.") {
		x.escapeArgs(st, args)
		if v, ok := x.bigIntrinsic(fr, st, key, c, args); ok {
			ret(fr, st, v)
			return
		}
	}
	if x.isPureCall(key) {
		x.escapeArgs(st, args)
		x.note("assumed-pure call (purecall): " + key)
		ret(fr, st, x.freshResult(st, x.resultType(c), "pc."+fn.Name()))
		return
	}
	con := x.CS.Funcs[key]
	if con == nil && fn.Origin() != nil {
		con = x.CS.Funcs[funcKey(fn.Origin())]
	}
	if os.Getenv("GOVC_DEBUG_CALL") != "" && strings.Contains(key, os.Getenv("GOVC_DEBUG_CALL")) {
		fmt.Fprintf(os.Stderr, "CALL key=%q con=%v origin=%v\n", key, con != nil, fn.Origin() != nil)
	}
	isRootRecursion := fn == x.root
	if con != nil && !con.Inline && (fn != x.root || isRootRecursion) {
		if fn == x.root && fr.depth == 0 {
			// recursive call of the function under verification: use its own contract
		}
		ret = x.noRetain(st, con, ret)
		x.escapeArgs(st, args)
		if fv != nil {
			x.escapeArgs(st, fv.Free)
		}
		x.applyContract(fr, st, fn, con, args, ret)
		return
	}
	if fn.Blocks != nil && x.P.InModule(fn) && fr.depth < x.cfg.MaxInline && !x.onStack(fr, fn) {
		x.inline(fr, st, fn, fv, args, ret, k)
		return
	}
	if fn.Blocks != nil && (fv.Free != nil || fn.Parent() != nil) && fr.depth < x.cfg.MaxInline+2 && !x.onStack(fr, fn) {
		x.inline(fr, st, fn, fv, args, ret, k)
		return
	}
	x.escapeArgs(st, args)
	if fv != nil {
		x.escapeArgs(st, fv.Free)
	}
	x.note("uncontracted-call " + key)
	x.havocCall(fr, st, c, args, key)
	ret(fr, st, x.freshResult(st, x.resultType(c), "call."+fn.Name()))
}

type stackEntry struct {
	fn     *ssa.Function
	parent *stackEntry
}

var inlineStack = map[int]*stackEntry{} // frame id -> stack

func (x *Exec) onStack(fr *Frame, fn *ssa.Function) bool {
	for e := inlineStack[fr.id]; e != nil; e = e.parent {
		if e.fn == fn {
			return true
		}
	}
	return fr.fn == fn
}

func (x *Exec) inline(fr *Frame, st *State, fn *ssa.Function, fv *FuncV, args []Value, ret callK, k func(*pathEnd)) {
	nf := x.newFrame(fn, fr.depth+1)
	inlineStack[nf.id] = &stackEntry{fn: fr.fn, parent: inlineStack[fr.id]}
	for i, p := range fn.Params {
		nf.vals[p] = args[i]
	}
	for i, v := range fn.FreeVars {
		if i < len(fv.Free) {
			nf.vals[v] = fv.Free[i]
		}
	}
	caller := fr
	x.runFunction(nf, st, func(end *pathEnd) {
		if end.panicked {
			k(end)
			return
		}
		var res Value
		switch len(end.results) {
		case 0:
		case 1:
			res = end.results[0]
		default:
			res = &TupleV{end.results}
		}
		// each callee path continues the caller with its own copy of the caller frame
		ret(caller.clone(), end.st, res)
	})
}

func (x *Exec) freshResult(st *State, t types.Type, hint string) Value {
	if t == nil {
		return nil
	}
	// see applyContractDesc: memory the callee allocated precedes every later allocation of the caller
	x.allocCount++
	v := x.freshResult1(st, t, hint)
	x.boundValueRefs(st, v)
	return v
}

func (x *Exec) freshResult1(st *State, t types.Type, hint string) Value {
	if tup, ok := t.(*types.Tuple); ok {
		tv := &TupleV{}
		for i := 0; i < tup.Len(); i++ {
			tv.Elems = append(tv.Elems, x.freshValue(st, tup.At(i).Type(), fmt.Sprintf("%s.%d", hint, i)))
		}
		return tv
	}
	return x.freshValue(st, t, hint)
}

// havocCall forgets everything an unknown callee could change.
func (x *Exec) havocCall(fr *Frame, st *State, c *ssa.CallCommon, args []Value, who string) {
	x.heapHavocAllCallee(st)
}

// ---------- interface method invocation ----------

func (x *Exec) invoke(fr *Frame, st *State, c *ssa.CallCommon, recv *IfaceV, args []Value, ret callK, k func(*pathEnd)) {
	key := x.ifaceMethodKey(c)
	rt := x.resultType(c)
	// statically known dynamic type: dispatch
	if recv.Tag.IsConst {
		id := int(recv.Tag.BVal.Int64())
		if ct, ok := x.tagTypes[id]; ok {
			ms := x.P.Prog.MethodSets.MethodSet(ct)
			if sel := ms.Lookup(c.Method.Pkg(), c.Method.Name()); sel != nil {
				if fn := x.P.Prog.MethodValue(sel); fn != nil && fn.Blocks != nil {
					rv := x.unbox(st, ct, recv)
					fv := &FuncV{Fn: fn}
					// static call path with receiver first
					cc := &ssa.CallCommon{Value: fn, Args: nil}
					_ = cc
					x.callStatic(fr, st, fn, fv, append([]Value{rv}, args...), rt, ret, k)
					return
				}
			}
		}
	}
	x.escapeValue(st, recv)
	x.escapeArgs(st, args)
	if con := x.CS.Funcs[key]; con != nil {
		// a (trusted) contract on an interface method, from /verif/specs
		sig := c.Signature()
		d := &calleeDesc{key: key, name: c.Method.Name(), results: sig.Results()}
		d.ptypes = append(d.ptypes, c.Value.Type())
		rn := con.Recv
		if rn == "" {
			rn = "recv"
		}
		d.pnames = append(d.pnames, rn)
		for i := 0; i < sig.Params().Len(); i++ {
			d.ptypes = append(d.ptypes, sig.Params().At(i).Type())
			pn := sig.Params().At(i).Name()
			if i < len(con.Params) {
				pn = con.Params[i]
			}
			d.pnames = append(d.pnames, pn)
		}
		if named, ok := c.Value.Type().(*types.Named); ok && named.Obj().Pkg() != nil {
			d.pkg = x.P.Package(named.Obj().Pkg().Path())
		}
		x.applyContractDesc(fr, st, d, con, append([]Value{recv}, args...), ret)
		return
	}
	if x.isPureInvoke(c) || c.Method.Name() == "Error" && len(args) == 0 {
		ret(fr, st, x.pureIfaceCall(st, key, recv, args, c, rt))
		return
	}
	x.note("uncontracted-call (interface) " + key)
	x.heapHavocAllCallee(st)
	ret(fr, st, x.freshResult(st, rt, "inv."+c.Method.Name()))
}

func (x *Exec) callStatic(fr *Frame, st *State, fn *ssa.Function, fv *FuncV, args []Value, rt types.Type, ret callK, k func(*pathEnd)) {
	key := funcKey(fn)
	if con := x.CS.Funcs[key]; con != nil && !con.Inline {
		ret = x.noRetain(st, con, ret)
		x.escapeArgs(st, args)
		x.applyContract(fr, st, fn, con, args, ret)
		return
	}
	if x.P.InModule(fn) && fr.depth < x.cfg.MaxInline && !x.onStack(fr, fn) {
		x.inline(fr, st, fn, fv, args, ret, k)
		return
	}
	x.escapeArgs(st, args)
	x.note("uncontracted-call " + key)
	x.heapHavocAllCallee(st)
	ret(fr, st, x.freshResult(st, rt, "call."+fn.Name()))
}

// pureIfaceCall models a deterministic getter: an uninterpreted function of (dynamic type, receiver, args).
func (x *Exec) pureIfaceCall(st *State, key string, recv *IfaceV, args []Value, c *ssa.CallCommon, rt types.Type) Value {
	if rt == nil {
		return nil
	}
	ins := []*Term{recv.Tag, recv.Ref}
	sig := c.Signature()
	for i, a := range args {
		ins = append(ins, x.flatten(sig.Params().At(i).Type(), a)...)
	}
	mk := func(t types.Type, suffix string) Value {
		cs := x.compsOf(t)
		var ts []*Term
		for _, cp := range cs {
			app := x.D.Fun(smtName(ifaceUFName(c.Method.Name(), sigString(sig))+suffix+cp.suffix), cp.sort, ins...)
			ts = append(ts, app)
			if len(args) == 0 {
				x.addInput(ModelVar{"call:" + c.Method.Name() + suffix + cp.suffix + "@" + recv.Ref.S, app.S, cp.sort.String()})
			}
		}
		v, _ := x.unflatten(t, ts)
		x.assumeTypeInv(st, t, v)
		x.markOld(st, t, v)
		return v
	}
	if tup, ok := rt.(*types.Tuple); ok {
		tv := &TupleV{}
		for i := 0; i < tup.Len(); i++ {
			tv.Elems = append(tv.Elems, mk(tup.At(i).Type(), fmt.Sprintf("#%d", i)))
		}
		return tv
	}
	return mk(rt, "")
}

// ---------- contracts at call sites ----------

// calleeDesc describes a callee for contract application: a function or an interface method.
type calleeDesc struct {
	key     string
	name    string
	ptypes  []types.Type
	pnames  []string
	results *types.Tuple
	pkg     *ssa.Package
}

func (x *Exec) descOfFunc(fn *ssa.Function, con *FuncContract) *calleeDesc {
	d := &calleeDesc{key: funcKey(fn), name: fn.Name(), results: fn.Signature.Results(), pkg: fn.Pkg}
	if d.pkg == nil && fn.Origin() != nil {
		d.pkg = fn.Origin().Pkg // instantiation of a generic: its contract lives in the generic's package
	}
	if fn.Params == nil && (fn.Signature.Recv() != nil || fn.Signature.Params().Len() > 0) {
		// external function (no body): parameters come from the signature
		sig := fn.Signature
		if sig.Recv() != nil {
			d.ptypes = append(d.ptypes, sig.Recv().Type())
			rn := con.Recv
			if rn == "" {
				rn = "recv"
			}
			d.pnames = append(d.pnames, rn)
		}
		for i := 0; i < sig.Params().Len(); i++ {
			d.ptypes = append(d.ptypes, sig.Params().At(i).Type())
			pn := sig.Params().At(i).Name()
			if i < len(con.Params) {
				pn = con.Params[i]
			}
			d.pnames = append(d.pnames, pn)
		}
		return d
	}
	for i, p := range fn.Params {
		d.ptypes = append(d.ptypes, p.Type())
		d.pnames = append(d.pnames, x.contractParamName(fn, con, i))
	}
	return d
}

func (x *Exec) applyContract(fr *Frame, st *State, fn *ssa.Function, con *FuncContract, args []Value, ret callK) {
	x.applyContractDesc(fr, st, x.descOfFunc(fn, con), con, args, ret)
}

func (x *Exec) applyContractDesc(fr *Frame, st *State, d *calleeDesc, con *FuncContract, args []Value, ret callK) {
	key := d.key
	if con.Trusted {
		x.note("trusted-contract " + key)
	}
	short := key[strings.LastIndex(key, "/")+1:]
	st.callSeq[short]++
	seq := st.callSeq[short]
	pre := st.Clone()
	env := x.newSpecEnv(fr, st, pre)
	if d.pkg != nil {
		env.pkg = d.pkg
	}
	for i, pt := range d.ptypes {
		n := d.pnames[i]
		env.bind(n, TV{args[i], pt})
		env.bind(n+"0", TV{args[i], pt})
	}
	evLets := eventLets(con)
	for _, c := range con.Clauses {
		switch c.Kind {
		case "let":
			if evLets[c.Name] {
				continue
			}
			func() {
				defer func() {
					if r := recover(); r != nil {
						if _, ok := r.(*SpecError); ok {
							return // lets that mention results are evaluated after the call
						}
						panic(r)
					}
				}()
				env.bind(c.Name, x.evalSpec(env, c.E))
			}()
		case "requires":
			g := x.specBool(env, c.E)
			x.emit(st, "requires", fmt.Sprintf("%s:%d:%s", short, seq, c.Label), g, false, c.Line)
			st.Assume(g)
		}
	}
	// frame
	x.havocFrame(fr, st, con, env)
	// whatever the callee allocated exists from now on: it can never coincide with an object the
	// caller allocates later. One allocation number is reserved for all of it, and every reference
	// in the results is bounded by it.
	nBefore := x.allocCount
	x.allocCount++
	if con.Attrs["allocates"] == "on" {
		// the callee returns linked structures it allocated: memory that exists now keeps its contents,
		// memory beyond it is the callee's (zz_alloc.go)
		x.extendHeapForCallee(st, nBefore)
	}
	// results
	rs := d.results
	var results []Value
	post := x.newSpecEnv(fr, st, pre)
	post.freshBase = nBefore
	post.pkg = env.pkg
	for k2, v := range env.names {
		post.names[k2] = v
	}
	for i := 0; i < rs.Len(); i++ {
		rn := fmt.Sprintf("r%d", i)
		if i < len(con.Results) {
			rn = con.Results[i]
		}
		var v Value
		if con.Functional {
			v = x.functionalResultDesc(st, d, i, args)
		} else {
			v = x.freshValue(st, rs.At(i).Type(), "ret."+d.name+"."+rn)
			x.boundValueRefs(st, v)
		}
		results = append(results, v)
		post.bind(rn, TV{v, rs.At(i).Type()})
		if rs.Len() == 1 {
			post.bind("result", TV{v, rs.At(i).Type()})
		}
	}
	for _, c := range con.Clauses {
		switch c.Kind {
		case "let":
			if evLets[c.Name] {
				continue
			}
			if _, ok := post.names[c.Name]; !ok {
				post.bind(c.Name, x.evalSpec(post, c.E))
			}
		case "ensures", "assume":
			if mentionsCallEvents(c.E, evLets) {
				// about the callee's internal calls: proved for the callee, not usable by its callers
				continue
			}
			st.Assume(x.specBool(post, c.E))
		}
	}
	var res Value
	switch len(results) {
	case 0:
	case 1:
		res = results[0]
	default:
		res = &TupleV{results}
	}
	ret(fr, st, res)
}

// havocFrame applies the callee's assigns clause (default: everything unless pure).
func (x *Exec) havocFrame(fr *Frame, st *State, con *FuncContract, env *SpecEnv) {
	if con.Pure {
		return
	}
	var assigns []*Clause
	for _, c := range con.Clauses {
		if c.Kind == "assigns" {
			assigns = append(assigns, c)
		}
	}
	if len(assigns) == 0 {
		x.heapHavocAllCallee(st)
		return
	}
	for _, c := range assigns {
		for _, item := range splitTop(c.Text, ',') {
			item = strings.TrimSpace(item)
			if item == "" || item == "nothing" {
				continue
			}
			if item == "heap" || item == "everything" {
				x.heapHavocAllCallee(st)
				continue
			}
			x.havocLocation(st, env, item)
		}
	}
}

// allFieldArray recognises the assigns form all(T).f and returns the name of the field's heap array.
func (x *Exec) allFieldArray(env *SpecEnv, item string) (string, bool) {
	if !strings.HasPrefix(item, "all(") {
		return "", false
	}
	i := strings.Index(item, ").")
	if i < 0 {
		unsupported("assigns: all(T).field expected, got %s", item)
	}
	tn, fn := strings.TrimSpace(item[4:i]), strings.TrimSpace(item[i+2:])
	t := x.P.LookupType(env.typesPkg(), tn)
	if t == nil {
		unsupported("assigns: unknown type %s", tn)
	}
	us, ok := t.Underlying().(*types.Struct)
	if !ok {
		unsupported("assigns: %s is not a struct type", tn)
	}
	for k := 0; k < us.NumFields(); k++ {
		if us.Field(k).Name() == fn {
			return fieldPrefix(structKey(t), fn), true
		}
	}
	unsupported("assigns: %s has no field %s", tn, fn)
	return "", false
}

func splitTop(s string, sep byte) []string {
	var out []string
	depth := 0
	last := 0
	for i := 0; i < len(s); i++ {
		switch s[i] {
		case '(', '[':
			depth++
		case ')', ']':
			depth--
		default:
			if s[i] == sep && depth == 0 {
				out = append(out, s[last:i])
				last = i + 1
			}
		}
	}
	out = append(out, s[last:])
	return out
}

// havocLocation havocs one assignable location: x.f | *p | s[*] | val(b) | m[*]
func (x *Exec) havocLocation(st *State, env *SpecEnv, item string) {
	if n, ok := x.allFieldArray(env, item); ok {
		// all(T).f: field f of every object of type T
		var names []string
		for hn := range st.heap {
			if hn == n || strings.HasPrefix(hn, n+".") {
				names = append(names, hn)
			}
		}
		sort.Strings(names)
		for _, hn := range names {
			x.heapHavoc(st, hn)
		}
		return
	}
	if strings.HasSuffix(item, "[*]") {
		e, err := ParseExpr(strings.TrimSuffix(item, "[*]"))
		if err != nil {
			unsupported("assigns: %v", err)
		}
		tv := x.evalSpec(env, e)
		switch v := tv.V.(type) {
		case *SliceV:
			et := tv.T.Underlying().(*types.Slice).Elem()
			if _, isS := et.Underlying().(*types.Struct); isS {
				for _, n := range x.arraysOfStructType(et) {
					for hn := range st.heap {
						if hn == n || strings.HasPrefix(hn, n+".") {
							x.heapHavoc(st, hn)
						}
					}
				}
				return
			}
			for _, cp := range x.compsOf(et) {
				name := elemPrefix(et) + cp.suffix
				arr := x.heapArr(st, name, SInt, ArraySort(SBV64, cp.sort))
				st.heap[name] = Store(arr, v.Base, x.freshSym("hv.elems", ArraySort(SBV64, cp.sort)))
			}
		case *Term:
			if mt, ok := tv.T.Underlying().(*types.Map); ok {
				ks := x.mapKeySort(mt)
				dn := mapPrefix(mt) + ".dom"
				dom := x.mapDom(st, mt)
				st.heap[dn] = Store(dom, v, x.freshSym("hv.dom", ArraySort(ks, SBool)))
				for _, cp := range x.mapValComps(mt) {
					name := mapPrefix(mt) + ".val" + cp.suffix
					arr := x.heapArr(st, name, SInt, ArraySort(ks, cp.sort))
					st.heap[name] = Store(arr, v, x.freshSym("hv.val", ArraySort(ks, cp.sort)))
				}
				return
			}
			unsupported("assigns %s", item)
		default:
			unsupported("assigns %s", item)
		}
		return
	}
	if strings.HasPrefix(item, "gf(") && strings.HasSuffix(item, ")") {
		parts := splitTop(item[3:len(item)-1], ',')
		if len(parts) != 2 {
			unsupported("assigns gf(ptr, name)")
		}
		e, err := ParseExpr(parts[0])
		if err != nil {
			unsupported("assigns: %v", err)
		}
		tv := x.evalSpec(env, e)
		var ref *Term
		switch p := tv.V.(type) {
		case *PtrV:
			ref = p.Ref
		case *IfaceV:
			ref = p.Ref
		default:
			unsupported("assigns gf(): pointer expected")
		}
		name := "GF:" + strings.TrimSpace(parts[1])
		arr := x.heapArr(st, name, SInt, SBV64)
		st.heap[name] = Store(arr, ref, x.freshSym("hv.gf", SBV64))
		return
	}
	if ns, ok := x.wholeArrayItem(env.typesPkg(), item); ok {
		x.havocWhole(st, ns)
		return
	}
	if pn, ok := reachItemParam(item); ok {
		e, err := ParseExpr(pn)
		if err != nil {
			unsupported("assigns: %v", err)
		}
		x.havocReach(st, x.evalSpec(env, e).V)
		return
	}
	if strings.HasPrefix(item, "val(") && strings.HasSuffix(item, ")") {
		e, err := ParseExpr(item[4 : len(item)-1])
		if err != nil {
			unsupported("assigns: %v", err)
		}
		tv := x.evalSpec(env, e)
		p := tv.V.(*PtrV)
		arr := x.heapArr(st, "BigVal", SInt, SInt)
		st.heap["BigVal"] = Store(arr, p.Ref, x.freshSym("hv.big", SInt))
		return
	}
	e, err := ParseExpr(item)
	if err != nil {
		unsupported("assigns: %v", err)
	}
	loc := x.evalSpecLoc(env, e)
	if loc == nil {
		unsupported("assigns: %s is not a location", item)
	}
	x.StoreTo(st, loc, x.freshValue(st, loc.Elem, "hv."+item))
}

// checkFrame: obligations that the verified function writes only what its assigns clause allows.
func (x *Exec) checkFrame(fr *Frame, con *FuncContract, env *SpecEnv, st, pre *State) {
	var assigns []*Clause
	for _, c := range con.Clauses {
		if c.Kind == "assigns" {
			assigns = append(assigns, c)
		}
	}
	if len(assigns) == 0 && !con.Pure {
		return
	}
	// allowed locations per heap array name: list of index terms; "*" means any
	type allow struct {
		any  bool
		idxs []*Term // for arrays indexed by ref
		elem []*Term // for E: arrays: allowed bases
	}
	allowed := map[string]*allow{}
	get := func(n string) *allow {
		a := allowed[n]
		if a == nil {
			a = &allow{}
			allowed[n] = a
		}
		return a
	}
	penv := x.newSpecEnv(fr, pre, pre)
	for k2, v := range env.names {
		penv.names[k2] = v
	}
	for _, c := range assigns {
		for _, item := range splitTop(c.Text, ',') {
			item = strings.TrimSpace(item)
			if n, ok := x.allFieldArray(penv, item); ok {
				get(n).any = true
				for hn := range st.heap {
					if strings.HasPrefix(hn, n+".") {
						get(hn).any = true
					}
				}
				continue
			}
			switch {
			case item == "" || item == "nothing":
			case item == "heap" || item == "everything":
				return
			case strings.HasSuffix(item, "[*]"):
				e, err := ParseExpr(strings.TrimSuffix(item, "[*]"))
				if err != nil {
					unsupported("assigns: %v", err)
				}
				tv := x.evalSpec(penv, e)
				switch v := tv.V.(type) {
				case *SliceV:
					et := tv.T.Underlying().(*types.Slice).Elem()
					if _, isS := et.Underlying().(*types.Struct); isS {
						for _, n := range x.arraysOfStructType(et) {
							get(n).any = true
						}
					} else {
						for _, cp := range x.compsOf(et) {
							a := get(elemPrefix(et) + cp.suffix)
							a.idxs = append(a.idxs, v.Base)
						}
					}
				case *Term:
					if mt, ok := tv.T.Underlying().(*types.Map); ok {
						get(mapPrefix(mt) + ".dom").idxs = append(get(mapPrefix(mt)+".dom").idxs, v)
						for _, cp := range x.mapValComps(mt) {
							n := mapPrefix(mt) + ".val" + cp.suffix
							get(n).idxs = append(get(n).idxs, v)
						}
					}
				}
			case strings.HasPrefix(item, "reach("):
				unsupported("assigns reach(p) can only be assumed (trusted contracts), not proved")
			case strings.HasPrefix(item, "cells(") || strings.HasPrefix(item, "elems(") || strings.HasPrefix(item, "gfall("):
				ns, _ := x.wholeArrayItem(penv.typesPkg(), item)
				for _, n := range ns {
					get(n).any = true
					for hn := range st.heap {
						if strings.HasPrefix(hn, n+".") {
							get(hn).any = true
						}
					}
				}
			case strings.HasPrefix(item, "gf("):
				parts := splitTop(item[3:len(item)-1], ',')
				e, _ := ParseExpr(parts[0])
				tv := x.evalSpec(penv, e)
				n := "GF:" + strings.TrimSpace(parts[1])
				get(n).idxs = append(get(n).idxs, tv.V.(*PtrV).Ref)
			case strings.HasPrefix(item, "val("):
				e, _ := ParseExpr(item[4 : len(item)-1])
				tv := x.evalSpec(penv, e)
				get("BigVal").idxs = append(get("BigVal").idxs, tv.V.(*PtrV).Ref)
			default:
				e, err := ParseExpr(item)
				if err != nil {
					unsupported("assigns: %v", err)
				}
				loc := x.evalSpecLoc(penv, e)
				if loc == nil {
					unsupported("assigns: %s is not a location", item)
				}
				for _, n := range x.arraysOfLoc(loc) {
					a := get(n)
					a.idxs = append(a.idxs, loc.Ref)
				}
			}
		}
	}
	if _, all := st.ghost["$havocAll"]; all {
		x.emit(st, "frame", "havoc-all", TFalse, false, "a callee or loop without frame information wrote the whole heap")
		return
	}
	for name, cur := range st.heap {
		init, ok := x.heap0[name]
		if !ok || cur.S == init.S {
			continue
		}
		a := allowed[name]
		if a != nil && a.any {
			continue
		}
		r := x.freshSym("frame.r", *cur.Sort.Idx)
		var conds []*Term
		if a != nil {
			for _, ix := range a.idxs {
				conds = append(conds, Neq(r, ix))
			}
		}
		if cur.Sort.Idx.K == KInt {
			// objects allocated during the call are not part of the caller-visible frame
			conds = append(conds, IntCmp("<=", r, IntBin("*", IntConstI(refK), x.allocBase)))
		}
		g := Implies(And(conds...), Eq(Select(cur, r), Select(init, r)))
		lab := name
		if i := strings.LastIndex(lab, "/"); i >= 0 {
			lab = lab[i+1:]
		}
		x.emit(st, "frame", lab, g, false, "")
	}
	// arrays forgotten by name (a loop cut at its header, a callee's whole-array frame) that were
	// never read at entry have no entry version to compare with: they count as written
	var hv []string
	for k := range st.ghost {
		if strings.HasPrefix(k, "$havoc:") {
			hv = append(hv, k[7:])
		}
	}
	sort.Strings(hv)
	for _, pfx := range hv {
		if root, ok := x.loopBaseGen(st, pfx); ok && root == "0" {
			continue // only objects allocated during the call were written
		}
		covered := false
		for n, a := range allowed {
			if (n == pfx || strings.HasPrefix(pfx, n+".") || strings.HasPrefix(n, pfx+".")) && (a.any || len(a.idxs) > 0) {
				covered = true
			}
		}
		for n := range x.heap0 {
			if n == pfx || strings.HasPrefix(n, pfx+".") {
				if _, have := st.heap[n]; have {
					covered = true
				}
			}
		}
		if covered {
			continue
		}
		lab := pfx
		if i := strings.LastIndex(lab, "/"); i >= 0 {
			lab = lab[i+1:]
		}
		if os.Getenv("GOVC_DEBUG_FRAME") != "" {
			fmt.Fprintf(os.Stderr, "FRAME by-name havoc not covered: %s (gen %v, base %v)\n", pfx, st.ghost["$havoc:"+pfx], st.ghost["$havocBase:"+pfx])
		}
		x.emit(st, "frame", lab, TFalse, false, "an array never read at entry ("+pfx+") was forgotten by name (loop or callee frame) and is not in the assigns clause")
	}
}

func (x *Exec) arraysOfLoc(p *PtrV) []string {
	switch {
	case p.Fld != nil:
		var out []string
		for _, c := range x.compsOf(p.Fld.Type) {
			out = append(out, fieldPrefix(p.Fld.Owner, p.Fld.Name)+c.suffix)
		}
		return out
	case p.SlEl:
		var out []string
		for _, c := range x.compsOf(p.Elem) {
			out = append(out, elemPrefix(p.Elem)+c.suffix)
		}
		return out
	}
	if _, ok := p.Elem.Underlying().(*types.Struct); ok {
		var out []string
		for _, n := range x.arraysOfStructType(p.Elem) {
			// all comps with that prefix: approximate by prefix match at use
			out = append(out, n)
		}
		return out
	}
	var out []string
	for _, c := range x.compsOf(p.Elem) {
		out = append(out, cellPrefix(p.Elem)+c.suffix)
	}
	return out
}

// ---------- callbacks and events ----------

// callbackCall checks "callback <target> requires" clauses of the root contract when a
// function-typed value loaded from that target is invoked.
func (x *Exec) callbackCall(fr *Frame, st *State, c *ssa.CallCommon, fv *FuncV, args []Value) {
	if x.rootC == nil {
		return
	}
	tgt := x.sourceName(fr, c.Value)
	n := 0
	for _, cl := range x.rootC.Clauses {
		if cl.Kind != "callback" || !matchTarget(cl.Name, tgt) {
			continue
		}
		n++
		env := x.newSpecEnv(fr, st, x.rootPre)
		x.bindRootParams(env)
		x.bindFrameNames(env, fr)
		sig := c.Signature()
		for i, a := range args {
			env.bind(fmt.Sprintf("arg%d", i), TV{a, sig.Params().At(i).Type()})
		}
		st.callSeq["cb:"+cl.Name]++
		g := x.specBool(env, cl.E)
		x.emit(st, "callback", fmt.Sprintf("%s:%s", cl.Name, cl.Label), g, false, cl.Line)
	}
	if n > 0 {
		st.ghost["$called:"+tgt] = TTrue
	}
}

func matchTarget(pattern, tgt string) bool {
	if pattern == tgt || strings.HasSuffix(tgt, "."+pattern) {
		return true
	}
	// a suffix match must start at a name boundary ("pkg.(*T).M" matches "(*T).M", never "xM")
	if strings.HasSuffix(tgt, pattern) && len(tgt) > len(pattern) {
		switch tgt[len(tgt)-len(pattern)-1] {
		case '.', ')', '$', '/':
			return true
		}
		if strings.HasPrefix(pattern, "(") {
			return true
		}
	}
	return false
}

// describeFuncSource gives a stable description of where a function value came from, e.g. "config.FinishedFunc".
func (x *Exec) describeFuncSource(v ssa.Value) string {
	switch u := v.(type) {
	case *ssa.UnOp:
		return x.describeFuncSource(u.X)
	case *ssa.FieldAddr:
		st := u.X.Type().Underlying().(*types.Pointer).Elem().Underlying().(*types.Struct)
		return x.describeFuncSource(u.X) + "." + st.Field(u.Field).Name()
	case *ssa.Field:
		st := u.X.Type().Underlying().(*types.Struct)
		return x.describeFuncSource(u.X) + "." + st.Field(u.Field).Name()
	case *ssa.Parameter:
		return u.Name()
	case *ssa.FreeVar:
		return u.Name()
	case *ssa.Phi:
		return u.Comment
	}
	return v.Name()
}

func (x *Exec) checkEvent(fr *Frame, st *State, kind string, ch ssa.Value, v Value, t types.Type) {
	if x.rootC == nil {
		return
	}
	tgt := x.describeFuncSource(ch)
	for _, cl := range x.rootC.Clauses {
		if cl.Kind != "callback" || !strings.HasPrefix(cl.Name, kind+":") || !matchTarget(cl.Name[len(kind)+1:], tgt) {
			continue
		}
		env := x.newSpecEnv(fr, st, x.rootPre)
		x.bindRootParams(env)
		x.bindFrameNames(env, fr)
		if v != nil {
			env.bind("arg0", TV{v, t})
		}
		g := x.specBool(env, cl.E)
		x.emit(st, "callback", fmt.Sprintf("%s:%s", cl.Name, cl.Label), g, false, cl.Line)
	}
	if kind == "send" {
		st.ghost["$sent:"+tgt] = TTrue
	}
	if !x.inSelectEvent {
		x.tokenEvent(st, st, kind, tgt, nil)
	}
}

func (x *Exec) addInput(m ModelVar) {
	for _, e := range x.inputs {
		if e.Term == m.Term {
			return
		}
	}
	if len(x.inputs) < 400 {
		x.inputs = append(x.inputs, m)
	}
}

// isPureCall: the function is covered by a "purecall" assumption of /verif/specs.
func (x *Exec) isPureCall(key string) bool {
	short := key[strings.LastIndex(key, "/")+1:]
	for _, sfx := range x.CS.PureCalls {
		if strings.HasSuffix(short, sfx) && (len(short) == len(sfx) || short[len(short)-len(sfx)-1] == '.') {
			return true
		}
	}
	return false
}
