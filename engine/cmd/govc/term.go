package main

// SMT term layer: sorted s-expressions with light simplification.

import (
	"fmt"
	"math/big"
	"sort"
	"strings"
)

type SortKind int

const (
	KBool SortKind = iota
	KBV
	KInt
	KUnint // uninterpreted sort (Str, Seq, ...)
	KArray
	KFP64
)

type Sort struct {
	K    SortKind
	W    int    // bit width for KBV
	Name string // for KUnint
	Idx  *Sort  // for KArray
	Elt  *Sort
}

var (
	SBool  = Sort{K: KBool}
	SInt   = Sort{K: KInt}
	SStr   = Sort{K: KUnint, Name: "GoStr"}
	SSeq   = Sort{K: KUnint, Name: "ByteSeq"}
	SFP64  = Sort{K: KFP64}
	SBV8   = BV(8)
	SBV64  = BV(64)
	SBV128 = BV(128)
)

func BV(w int) Sort { return Sort{K: KBV, W: w} }
func ArraySort(idx, elt Sort) Sort {
	i, e := idx, elt
	return Sort{K: KArray, Idx: &i, Elt: &e}
}

func (s Sort) String() string {
	switch s.K {
	case KBool:
		return "Bool"
	case KBV:
		return fmt.Sprintf("(_ BitVec %d)", s.W)
	case KInt:
		return "Int"
	case KUnint:
		return s.Name
	case KArray:
		return fmt.Sprintf("(Array %s %s)", s.Idx.String(), s.Elt.String())
	case KFP64:
		return "(_ FloatingPoint 11 53)"
	}
	return "?"
}

func (s Sort) Eq(o Sort) bool { return s.String() == o.String() }

type Term struct {
	S    string
	Sort Sort
	// constant payloads
	Def     string // for definitional assertions (= sym term): the defined symbol
	Reveal  bool   // the definitional axiom of an opaque spec function (left out of the first solving attempt)
	IsConst bool
	BVal    *big.Int // for BV / Int constants
	BoolVal bool
}

func (t *Term) String() string { return t.S }

var (
	TTrue  = &Term{S: "true", Sort: SBool, IsConst: true, BoolVal: true}
	TFalse = &Term{S: "false", Sort: SBool, IsConst: true, BoolVal: false}
)

func BoolConst(b bool) *Term {
	if b {
		return TTrue
	}
	return TFalse
}

func BVConst(v *big.Int, w int) *Term {
	m := new(big.Int).Lsh(big.NewInt(1), uint(w))
	x := new(big.Int).Mod(v, m)
	if x.Sign() < 0 {
		x.Add(x, m)
	}
	return &Term{S: fmt.Sprintf("(_ bv%s %d)", x.String(), w), Sort: BV(w), IsConst: true, BVal: x}
}

func BVConstU(v uint64, w int) *Term { return BVConst(new(big.Int).SetUint64(v), w) }

func IntConst(v *big.Int) *Term {
	s := v.String()
	if v.Sign() < 0 {
		s = "(- " + new(big.Int).Neg(v).String() + ")"
	}
	return &Term{S: s, Sort: SInt, IsConst: true, BVal: new(big.Int).Set(v)}
}
func IntConstI(v int64) *Term { return IntConst(big.NewInt(v)) }

func Sym(name string, s Sort) *Term { return &Term{S: name, Sort: s} }

func App(op string, s Sort, args ...*Term) *Term {
	var b strings.Builder
	b.WriteByte('(')
	b.WriteString(op)
	for _, a := range args {
		b.WriteByte(' ')
		b.WriteString(a.S)
	}
	b.WriteByte(')')
	return &Term{S: b.String(), Sort: s}
}

// ---- boolean ----

func Not(a *Term) *Term {
	if a.IsConst {
		return BoolConst(!a.BoolVal)
	}
	if strings.HasPrefix(a.S, "(not ") {
		return &Term{S: a.S[5 : len(a.S)-1], Sort: SBool}
	}
	return App("not", SBool, a)
}

func And(as ...*Term) *Term {
	var out []*Term
	seen := map[string]bool{}
	for _, a := range as {
		if a.IsConst {
			if !a.BoolVal {
				return TFalse
			}
			continue
		}
		if seen[a.S] {
			continue
		}
		seen[a.S] = true
		out = append(out, a)
	}
	if len(out) == 0 {
		return TTrue
	}
	if len(out) == 1 {
		return out[0]
	}
	return App("and", SBool, out...)
}

func Or(as ...*Term) *Term {
	var out []*Term
	seen := map[string]bool{}
	for _, a := range as {
		if a.IsConst {
			if a.BoolVal {
				return TTrue
			}
			continue
		}
		if seen[a.S] {
			continue
		}
		seen[a.S] = true
		out = append(out, a)
	}
	if len(out) == 0 {
		return TFalse
	}
	if len(out) == 1 {
		return out[0]
	}
	return App("or", SBool, out...)
}

func Implies(a, b *Term) *Term {
	if a.IsConst {
		if a.BoolVal {
			return b
		}
		return TTrue
	}
	if b.IsConst && b.BoolVal {
		return TTrue
	}
	return App("=>", SBool, a, b)
}

func Ite(c, a, b *Term) *Term {
	if c.IsConst {
		if c.BoolVal {
			return a
		}
		return b
	}
	if a.S == b.S {
		return a
	}
	if a.Sort.K == KBool {
		if a.IsConst && b.IsConst {
			if a.BoolVal {
				return c
			}
			return Not(c)
		}
	}
	return App("ite", a.Sort, c, a, b)
}

func Eq(a, b *Term) *Term {
	if !a.Sort.Eq(b.Sort) {
		panic(fmt.Sprintf("Eq: sort mismatch %s : %s vs %s : %s", a.S, a.Sort, b.S, b.Sort))
	}
	if a.S == b.S {
		return TTrue
	}
	if a.IsConst && b.IsConst {
		if a.Sort.K == KBool {
			return BoolConst(a.BoolVal == b.BoolVal)
		}
		return BoolConst(a.BVal.Cmp(b.BVal) == 0)
	}
	if a.Sort.K == KBool {
		if a.IsConst {
			if a.BoolVal {
				return b
			}
			return Not(b)
		}
		if b.IsConst {
			if b.BoolVal {
				return a
			}
			return Not(a)
		}
	}
	return App("=", SBool, a, b)
}

func Neq(a, b *Term) *Term { return Not(Eq(a, b)) }

// ---- bit-vectors ----

func mask(w int) *big.Int {
	m := new(big.Int).Lsh(big.NewInt(1), uint(w))
	return m.Sub(m, big.NewInt(1))
}

func toSigned(v *big.Int, w int) *big.Int {
	h := new(big.Int).Lsh(big.NewInt(1), uint(w-1))
	if v.Cmp(h) >= 0 {
		return new(big.Int).Sub(v, new(big.Int).Lsh(big.NewInt(1), uint(w)))
	}
	return new(big.Int).Set(v)
}

func BVBin(op string, a, b *Term) *Term {
	if !a.Sort.Eq(b.Sort) {
		panic(fmt.Sprintf("BVBin %s: sort mismatch %s:%s vs %s:%s", op, a.S, a.Sort, b.S, b.Sort))
	}
	w := a.Sort.W
	if a.IsConst && b.IsConst {
		x, y := a.BVal, b.BVal
		r := new(big.Int)
		ok := true
		switch op {
		case "bvadd":
			r.Add(x, y)
		case "bvsub":
			r.Sub(x, y)
		case "bvmul":
			r.Mul(x, y)
		case "bvand":
			r.And(x, y)
		case "bvor":
			r.Or(x, y)
		case "bvxor":
			r.Xor(x, y)
		case "bvshl":
			if y.Cmp(big.NewInt(int64(w))) >= 0 {
				r.SetInt64(0)
			} else {
				r.Lsh(x, uint(y.Uint64()))
			}
		case "bvlshr":
			if y.Cmp(big.NewInt(int64(w))) >= 0 {
				r.SetInt64(0)
			} else {
				r.Rsh(x, uint(y.Uint64()))
			}
		case "bvudiv":
			if y.Sign() == 0 {
				ok = false
			} else {
				r.Div(x, y)
			}
		case "bvurem":
			if y.Sign() == 0 {
				ok = false
			} else {
				r.Mod(x, y)
			}
		default:
			ok = false
		}
		if ok {
			return BVConst(r, w)
		}
	}
	// identities
	switch op {
	case "bvadd":
		if a.IsConst && a.BVal.Sign() == 0 {
			return b
		}
		if b.IsConst && b.BVal.Sign() == 0 {
			return a
		}
	case "bvsub":
		if b.IsConst && b.BVal.Sign() == 0 {
			return a
		}
	case "bvmul":
		if b.IsConst && b.BVal.Cmp(big.NewInt(1)) == 0 {
			return a
		}
		if a.IsConst && a.BVal.Cmp(big.NewInt(1)) == 0 {
			return b
		}
	}
	return App(op, a.Sort, a, b)
}

func BVCmp(op string, a, b *Term) *Term {
	if !a.Sort.Eq(b.Sort) {
		panic(fmt.Sprintf("BVCmp %s: sort mismatch %s:%s vs %s:%s", op, a.S, a.Sort, b.S, b.Sort))
	}
	w := a.Sort.W
	if a.IsConst && b.IsConst {
		x, y := a.BVal, b.BVal
		if strings.HasPrefix(op, "bvs") {
			x, y = toSigned(x, w), toSigned(y, w)
		}
		c := x.Cmp(y)
		switch op[3:] {
		case "lt":
			return BoolConst(c < 0)
		case "le":
			return BoolConst(c <= 0)
		case "gt":
			return BoolConst(c > 0)
		case "ge":
			return BoolConst(c >= 0)
		}
	}
	if a.S == b.S {
		switch op[3:] {
		case "lt", "gt":
			return TFalse
		case "le", "ge":
			return TTrue
		}
	}
	return App(op, SBool, a, b)
}

func BVNeg(a *Term) *Term {
	if a.IsConst {
		return BVConst(new(big.Int).Neg(a.BVal), a.Sort.W)
	}
	return App("bvneg", a.Sort, a)
}
func BVNot(a *Term) *Term {
	if a.IsConst {
		return BVConst(new(big.Int).Xor(a.BVal, mask(a.Sort.W)), a.Sort.W)
	}
	return App("bvnot", a.Sort, a)
}

func Extract(hi, lo int, a *Term) *Term {
	if lo == 0 && hi == a.Sort.W-1 {
		return a
	}
	if a.IsConst {
		v := new(big.Int).Rsh(a.BVal, uint(lo))
		return BVConst(v, hi-lo+1)
	}
	return &Term{S: fmt.Sprintf("((_ extract %d %d) %s)", hi, lo, a.S), Sort: BV(hi - lo + 1)}
}

func ZeroExt(n int, a *Term) *Term {
	if n == 0 {
		return a
	}
	if a.IsConst {
		return BVConst(a.BVal, a.Sort.W+n)
	}
	return &Term{S: fmt.Sprintf("((_ zero_extend %d) %s)", n, a.S), Sort: BV(a.Sort.W + n)}
}

func SignExt(n int, a *Term) *Term {
	if n == 0 {
		return a
	}
	if a.IsConst {
		return BVConst(toSigned(a.BVal, a.Sort.W), a.Sort.W+n)
	}
	return &Term{S: fmt.Sprintf("((_ sign_extend %d) %s)", n, a.S), Sort: BV(a.Sort.W + n)}
}

func Concat(a, b *Term) *Term {
	if a.IsConst && b.IsConst {
		v := new(big.Int).Lsh(a.BVal, uint(b.Sort.W))
		v.Or(v, b.BVal)
		return BVConst(v, a.Sort.W+b.Sort.W)
	}
	return App("concat", BV(a.Sort.W+b.Sort.W), a, b)
}

// Resize converts a BV to width w with Go conversion semantics.
func Resize(a *Term, w int, signed bool) *Term {
	if a.Sort.W == w {
		return a
	}
	if a.Sort.W > w {
		return Extract(w-1, 0, a)
	}
	if signed {
		return SignExt(w-a.Sort.W, a)
	}
	return ZeroExt(w-a.Sort.W, a)
}

// ---- Int ----

func IntBin(op string, a, b *Term) *Term {
	if a.IsConst && b.IsConst {
		r := new(big.Int)
		switch op {
		case "+":
			return IntConst(r.Add(a.BVal, b.BVal))
		case "-":
			return IntConst(r.Sub(a.BVal, b.BVal))
		case "*":
			return IntConst(r.Mul(a.BVal, b.BVal))
		}
	}
	return App(op, SInt, a, b)
}

func IntCmp(op string, a, b *Term) *Term {
	if a.IsConst && b.IsConst {
		c := a.BVal.Cmp(b.BVal)
		switch op {
		case "<":
			return BoolConst(c < 0)
		case "<=":
			return BoolConst(c <= 0)
		case ">":
			return BoolConst(c > 0)
		case ">=":
			return BoolConst(c >= 0)
		}
	}
	return App(op, SBool, a, b)
}

// BV2Nat: unsigned value of a bit-vector as Int.
func BV2Nat(a *Term) *Term {
	if a.IsConst {
		return IntConst(a.BVal)
	}
	return App("bv2nat", SInt, a)
}

// BV2Int signed.
func BV2IntSigned(a *Term) *Term {
	if a.IsConst {
		return IntConst(toSigned(a.BVal, a.Sort.W))
	}
	w := a.Sort.W
	p := new(big.Int).Lsh(big.NewInt(1), uint(w))
	n := BV2Nat(a)
	return Ite(BVCmp("bvslt", a, BVConstU(0, w)), IntBin("-", n, IntConst(p)), n)
}

// ---- arrays ----

func Select(arr, idx *Term) *Term {
	if arr.Sort.K != KArray {
		panic("Select on non-array " + arr.S + " : " + arr.Sort.String())
	}
	if !arr.Sort.Idx.Eq(idx.Sort) {
		panic(fmt.Sprintf("Select: index sort mismatch %s vs %s", arr.Sort, idx.Sort))
	}
	return App("select", *arr.Sort.Elt, arr, idx)
}

func Store(arr, idx, v *Term) *Term {
	if arr.Sort.K != KArray {
		panic("Store on non-array")
	}
	if !arr.Sort.Elt.Eq(v.Sort) {
		panic(fmt.Sprintf("Store: elt sort mismatch %s vs %s (%s)", arr.Sort, v.Sort, v.S))
	}
	if !arr.Sort.Idx.Eq(idx.Sort) {
		panic(fmt.Sprintf("Store: idx sort mismatch %s vs %s", arr.Sort, idx.Sort))
	}
	return App("store", arr.Sort, arr, idx, v)
}

// ---- declarations bookkeeping ----

type Decls struct {
	consts map[string]Sort
	funs   map[string]string // name -> full declare-fun / define-fun text
	order  []string
	sorts  map[string]bool
}

func NewDecls() *Decls {
	return &Decls{consts: map[string]Sort{}, funs: map[string]string{}, sorts: map[string]bool{}}
}

func (d *Decls) Const(name string, s Sort) *Term {
	if old, ok := d.consts[name]; ok {
		if !old.Eq(s) {
			panic("redeclared const " + name + " with different sort: " + old.String() + " vs " + s.String())
		}
	} else {
		d.consts[name] = s
		d.order = append(d.order, name)
	}
	d.noteSort(s)
	return Sym(name, s)
}

func (d *Decls) noteSort(s Sort) {
	switch s.K {
	case KUnint:
		d.sorts[s.Name] = true
	case KArray:
		d.noteSort(*s.Idx)
		d.noteSort(*s.Elt)
	}
}

// Fun declares an uninterpreted function if needed, returns application.
func (d *Decls) Fun(name string, res Sort, args ...*Term) *Term {
	if _, ok := d.funs[name]; !ok {
		var as []string
		for _, a := range args {
			as = append(as, a.Sort.String())
			d.noteSort(a.Sort)
		}
		d.noteSort(res)
		d.funs[name] = fmt.Sprintf("(declare-fun %s (%s) %s)", name, strings.Join(as, " "), res.String())
		d.order = append(d.order, "fun:"+name)
	}
	if len(args) == 0 {
		return Sym(name, res)
	}
	return App(name, res, args...)
}

func (d *Decls) declared(name string) bool {
	if _, ok := d.consts[name]; ok {
		return true
	}
	_, ok := d.funs[name]
	return ok
}

// TextFor emits only the declarations whose symbol occurs in used.
func (d *Decls) TextFor(used map[string]bool) string {
	var b strings.Builder
	var sorts []string
	for s := range d.sorts {
		sorts = append(sorts, s)
	}
	sort.Strings(sorts)
	for _, s := range sorts {
		fmt.Fprintf(&b, "(declare-sort %s 0)\n", s)
	}
	for _, n := range d.order {
		if strings.HasPrefix(n, "fun:") {
			if used[n[4:]] {
				b.WriteString(d.funs[n[4:]])
				b.WriteByte('\n')
			}
		} else if used[n] {
			fmt.Fprintf(&b, "(declare-const %s %s)\n", n, d.consts[n].String())
		}
	}
	return b.String()
}

// symbolsOf adds every identifier-like token of an SMT term string to set.
func symbolsOf(s string, set map[string]bool) {
	i := 0
	for i < len(s) {
		c := s[i]
		switch {
		case c == '|':
			j := strings.IndexByte(s[i+1:], '|')
			if j < 0 {
				return
			}
			set[s[i:i+j+2]] = true
			i += j + 2
		case c >= 'a' && c <= 'z' || c >= 'A' && c <= 'Z' || c == '_':
			j := i
			for j < len(s) {
				d := s[j]
				if d >= 'a' && d <= 'z' || d >= 'A' && d <= 'Z' || d >= '0' && d <= '9' || d == '_' || d == '.' || d == '!' || d == '?' || d == ':' || d == '-' {
					j++
				} else {
					break
				}
			}
			set[s[i:j]] = true
			i = j
		default:
			i++
		}
	}
}

func (d *Decls) Text() string {
	var b strings.Builder
	var sorts []string
	for s := range d.sorts {
		sorts = append(sorts, s)
	}
	sort.Strings(sorts)
	for _, s := range sorts {
		fmt.Fprintf(&b, "(declare-sort %s 0)\n", s)
	}
	for _, n := range d.order {
		if strings.HasPrefix(n, "fun:") {
			b.WriteString(d.funs[n[4:]])
			b.WriteByte('\n')
		} else {
			fmt.Fprintf(&b, "(declare-const %s %s)\n", n, d.consts[n].String())
		}
	}
	return b.String()
}

func smtName(s string) string {
	// produce a quoted SMT symbol safe for any Go identifier path
	r := strings.NewReplacer("|", "_", "\\", "_", " ", "_")
	return "|" + r.Replace(s) + "|"
}
