package main

// Local verification of event obligations (attr "local <k>").
//
// A function with dozens of independent branches has exponentially many paths, but an obligation of
// the form "callback call:<F> requires G" only depends on the branches that decide whether the call
// happens. For a contract that carries the attribute `local <k>` each call site matching a
// `callback call:` clause is verified on its own: symbolic execution starts at the k-th dominator of
// the site's block, from an ARBITRARY state - every value defined earlier is a fresh unconstrained
// value of its type, the heap is an unconstrained heap - follows only paths that can still reach
// the site, and stops at the site. Whatever holds from an arbitrary state at a dominator holds on
// every real execution that reaches the site, so a discharged obligation is a proof; the price is
// that facts established before the dominator are not available (choose k large enough for the
// guard, small enough for the path count). Only `callback call:` clauses are checked in this mode;
// the contract's requires / ensures / frame are not (a contract using `local` must not have any).

import (
	"fmt"
	"go/types"
	"strconv"
	"strings"

	"golang.org/x/tools/go/ssa"
)

type localSite struct {
	block *ssa.BasicBlock
	index int
	call  *ssa.CallCommon
}

func (x *Exec) localSites(fn *ssa.Function, con *FuncContract) []localSite {
	var pats []string
	for _, cl := range con.Clauses {
		if cl.Kind == "callback" && strings.HasPrefix(cl.Name, "call:") {
			pats = append(pats, cl.Name[5:])
		}
	}
	var out []localSite
	for _, b := range fn.Blocks {
		for i, ins := range b.Instrs {
			ci, ok := ins.(ssa.CallInstruction)
			if !ok {
				continue
			}
			if _, isCall := ins.(*ssa.Call); !isCall {
				continue
			}
			c := ci.Common()
			fnc := c.StaticCallee()
			if fnc == nil || c.IsInvoke() {
				continue
			}
			key := funcKey(fnc)
			for _, want := range pats {
				if x.callPatternMatches(want, key, c) {
					out = append(out, localSite{b, i, c})
					break
				}
			}
		}
	}
	return out
}

// verifyLocal runs the per-site executions. It is called from VerifyFunction after reset().
func (x *Exec) verifyLocal(fn *ssa.Function, con *FuncContract) ([]*Obl, error) {
	up, err := strconv.Atoi(strings.TrimSpace(con.Attrs["local"]))
	if err != nil || up < 0 {
		return nil, fmt.Errorf("%s: attr local needs a non-negative number of dominator levels", x.rootKey)
	}
	for _, cl := range con.Clauses {
		switch cl.Kind {
		case "requires", "ensures", "assigns", "token", "cover":
			return nil, fmt.Errorf("%s: a contract with attr local may only carry callback call: clauses (found %s)", x.rootKey, cl.Kind)
		}
	}
	sites := x.localSites(fn, con)
	if len(sites) == 0 {
		return nil, fmt.Errorf("%s: attr local: no call site matches a callback call: clause", x.rootKey)
	}
	// source variable names, for the clauses
	names := map[string]ssa.Value{}
	isAddr := map[string]bool{}
	for _, b := range fn.Blocks {
		for _, ins := range b.Instrs {
			if d, ok := ins.(*ssa.DebugRef); ok && d.Object() != nil {
				if _, isVar := d.Object().(*types.Var); isVar {
					if _, seen := names[d.Object().Name()]; !seen || d.IsAddr {
						names[d.Object().Name()] = d.X
						isAddr[d.Object().Name()] = d.IsAddr
					}
				}
			}
		}
	}
	for n, site := range sites {
		d := site.block
		for k := 0; k < up && d.Idom() != nil; k++ {
			d = d.Idom()
		}
		reach := map[*ssa.BasicBlock]bool{site.block: true}
		work := []*ssa.BasicBlock{site.block}
		for len(work) > 0 {
			b := work[len(work)-1]
			work = work[:len(work)-1]
			for _, p := range b.Preds {
				if !reach[p] {
					reach[p] = true
					work = append(work, p)
				}
			}
		}
		st := NewState()
		st.Assume(IntCmp(">", x.allocBase, IntConstI(0)))
		st.ghost["$gen"] = fmt.Sprintf("L%d", n)
		fr := x.newFrame(fn, 0)
		fr.isRoot = true
		fr.con = con
		for name, v := range names {
			fr.names[name] = v
			fr.nameIsAddr[name] = isAddr[name]
		}
		env := x.newSpecEnv(fr, st, nil)
		x.localLazy = true
		for i, p := range fn.Params {
			v := x.freshValue(st, p.Type(), fmt.Sprintf("in%d.%s", n, p.Name()))
			fr.vals[p] = v
			fr.params = append(fr.params, v)
			cname := x.contractParamName(fn, con, i)
			env.bind(cname, TV{v, p.Type()})
			if p.Name() != "" && p.Name() != cname {
				env.bind(p.Name(), TV{v, p.Type()})
			}
		}
		for _, fv := range fn.FreeVars {
			fr.vals[fv] = x.freshValue(st, fv.Type(), "free."+fv.Name())
		}
		x.rootPre = st.Clone()
		x.rootEnvNames = env.names
		x.localReach = reach
		x.localTarget = site.call
		x.heap0 = nil
		x.runBlock(fr, st, d, nil, func(end *pathEnd) { x.paths++ })
		x.localReach = nil
		x.localTarget = nil
		x.localLazy = false
		if x.pathLimit {
			return x.obls, fmt.Errorf("%s: path limit (%d) exceeded in local mode at site %d", x.rootKey, x.cfg.MaxPaths, n)
		}
	}
	x.note(fmt.Sprintf("local mode: %d call sites verified separately, each from an arbitrary state at dominator level %d", len(sites), up))
	return x.obls, nil
}
