package main

// Bounded stand-ins. Where a function could not be brought within the verifier's reach, a bounded
// check of that function may stand in: /verif/bounded/<ID>/<name>_test.go, injected into /repo with
// `go test -overlay` (never part of the repository), header lines
//   // bounded-pkg:   <package directory>
//   // bounded-bound: <the bound, in words>
// and a test TestVerifBounded that enumerates the bounded input space and compares the real
// function with the property statement. The outcome is reported under coverage.bounded_checks in the
// evidence, labelled bounded; it is never counted among the discharged obligations. A failure is a
// violation whose replay file carries the failing input printed by the harness.

import (
	"bytes"
	"context"
	"encoding/json"
	"fmt"
	"os"
	"os/exec"
	"path/filepath"
	"regexp"
	"sort"
	"strings"
	"time"
)

var boundedPkgRe = regexp.MustCompile(`(?m)^// bounded-pkg:\s*(\S+)`)
var boundedBoundRe = regexp.MustCompile(`(?m)^// bounded-bound:\s*(.+)$`)

func runBoundedChecks(o *Options, id string) (results []map[string]any, violations int) {
	files, _ := filepath.Glob(filepath.Join(verifDir, "bounded", id, "*_test.go"))
	sort.Strings(files)
	for _, f := range files {
		src, err := os.ReadFile(f)
		if err != nil {
			continue
		}
		m := boundedPkgRe.FindSubmatch(src)
		if m == nil {
			continue
		}
		pkg := string(m[1])
		bound := ""
		if b := boundedBoundRe.FindSubmatch(src); b != nil {
			bound = strings.TrimSpace(string(b[1]))
		}
		name := strings.TrimSuffix(filepath.Base(f), "_test.go")
		work := filepath.Join(o.Work, "bounded-"+id+"-"+name)
		os.MkdirAll(work, 0o755)
		replace := map[string]string{filepath.Join(o.Repo, pkg, "zz_verif_bounded_test.go"): f}
		if o.Overlay != "" {
			var mm map[string]string
			if err := loadJSON(o.Overlay, &mm); err == nil {
				for k, v := range mm {
					replace[k] = v
				}
			}
		}
		ov, _ := json.Marshal(map[string]any{"Replace": replace})
		ovPath := filepath.Join(work, "overlay.json")
		os.WriteFile(ovPath, ov, 0o644)
		args := []string{"test", "-overlay", ovPath, "-vet=off", "-count=1", "-timeout", "120s", "-run", "^TestVerifBounded$", "-v", "./" + pkg}
		ctx, cancel := context.WithTimeout(context.Background(), 300*time.Second)
		cmd := exec.CommandContext(ctx, filepath.Join(goBinDir, "go"), args...)
		cmd.Dir = o.Repo
		cache := filepath.Join(verifDir, ".cache", "go-build")
		os.MkdirAll(cache, 0o755)
		cmd.Env = append(os.Environ(), "VERIF_TIER="+o.Tier, "GOCACHE="+cache, "GOFLAGS=-mod=mod", "GOPROXY=off", "GOSUMDB=off", "GOTOOLCHAIN=local")
		var out bytes.Buffer
		cmd.Stdout = &out
		cmd.Stderr = &out
		t0 := time.Now()
		runErr := cmd.Run()
		cancel()
		s := out.String()
		if len(s) > 6000 {
			s = s[:6000]
		}
		status := "held on the whole bounded space"
		var cases any
		if mm := regexp.MustCompile(`VERIF-BOUNDED: (\d+) cases`).FindStringSubmatch(s); mm != nil {
			cases = mm[1]
		}
		if runErr != nil {
			status = "FAILED"
			violations++
			dir := filepath.Join(verifDir, "replays", id)
			os.MkdirAll(dir, 0o755)
			rp := filepath.Join(dir, "bounded-"+name+".json")
			data, _ := json.MarshalIndent(map[string]any{
				"property": id, "obligation": "bounded:" + name, "bound": bound, "replayed": true,
				"replay_cmd":    fmt.Sprintf("cd %s && go test %s", o.Repo, strings.Join(args[1:], " ")),
				"replay_output": s,
			}, "", " ")
			os.WriteFile(rp, data, 0o644)
			suffix := ""
			if !strings.Contains(s, "VERIF-BOUNDED: violated") {
				suffix = " no-failing-input-found"
			}
			fmt.Printf("VIOLATION property=%s replay=%s%s\n", id, rp, suffix)
			fmt.Printf("  bounded check %s: failed\n", name)
		}
		results = append(results, map[string]any{
			"name": name, "label": "bounded (not a proof)", "package": pkg, "bound": bound, "status": status,
			"cases": cases, "secs": round3(time.Since(t0).Seconds()),
		})
	}
	return results, violations
}
