package main

// Skolem-guided instantiation. A goal "forall v :: B" is proved by refuting B[sk] for a fresh constant
// sk (standard skolemisation). The solvers' pattern inference often fails to instantiate the assumed
// quantified facts (loop invariants, callee postconditions, append/copy definitions) at sk, because
// the index arithmetic inside their bodies is normalised differently from the ground terms. So the
// query also gets, for every assumed single-variable universal fact over the same sort, its instance
// at sk, and at the shifted indices (bvsub sk t) that those instances mention. Instances of assumed
// universals are consequences of the assumptions: nothing is added that was not already implied.

import (
	"fmt"
	"strings"
)

type sexprBinder struct{ name, sort string }

// matchParen returns the index just after the s-expression starting at s[i] (which must be '(' or an atom).
func sexprEnd(s string, i int) int {
	if i >= len(s) {
		return i
	}
	if s[i] == '|' {
		j := strings.IndexByte(s[i+1:], '|')
		if j < 0 {
			return len(s)
		}
		return i + j + 2
	}
	if s[i] != '(' {
		j := i
		for j < len(s) && s[j] != ' ' && s[j] != ')' && s[j] != '(' {
			j++
		}
		return j
	}
	depth := 0
	for j := i; j < len(s); j++ {
		switch s[j] {
		case '|':
			k := strings.IndexByte(s[j+1:], '|')
			if k < 0 {
				return len(s)
			}
			j += k + 1
		case '(':
			depth++
		case ')':
			depth--
			if depth == 0 {
				return j + 1
			}
		}
	}
	return len(s)
}

// splitForall parses "(forall (BINDERS) BODY)" and strips a "(! BODY :pattern ...)" wrapper.
func splitForall(s string) (bs []sexprBinder, body string, ok bool) {
	const pfx = "(forall ("
	if !strings.HasPrefix(s, pfx) || sexprEnd(s, 0) != len(s) {
		return nil, "", false
	}
	i := len(pfx) - 1 // at '(' of binder list
	end := sexprEnd(s, i)
	list := s[i+1 : end-1]
	for j := 0; j < len(list); {
		if list[j] == ' ' {
			j++
			continue
		}
		if list[j] != '(' {
			return nil, "", false
		}
		e := sexprEnd(list, j)
		item := list[j+1 : e-1]
		ne := sexprEnd(item, 0)
		bs = append(bs, sexprBinder{item[:ne], strings.TrimSpace(item[ne:])})
		j = e
	}
	rest := strings.TrimSpace(s[end : len(s)-1])
	if strings.HasPrefix(rest, "(! ") {
		inner := rest[3:]
		ie := sexprEnd(inner, 0)
		rest = inner[:ie]
	}
	return bs, rest, len(bs) > 0
}

// topConjuncts splits "(and A B ...)" at top level (one level only).
func topConjuncts(s string) []string {
	if !strings.HasPrefix(s, "(and ") || sexprEnd(s, 0) != len(s) {
		return []string{s}
	}
	var out []string
	in := s[5 : len(s)-1]
	for j := 0; j < len(in); {
		if in[j] == ' ' {
			j++
			continue
		}
		e := sexprEnd(in, j)
		out = append(out, in[j:e])
		j = e
	}
	return out
}

// skolemGoal replaces universal quantifiers in positive position of a goal (the goal itself, the
// conjuncts of a conjunction, the consequent of an implication) by fresh constants; other goals are
// returned unchanged.
func skolemGoal(goal string, id int) (newGoal string, sks []sexprBinder) {
	n := 0
	var rec func(g string, depth int) string
	rec = func(g string, depth int) string {
		if depth > 4 {
			return g
		}
		if bs, body, ok := splitForall(g); ok {
			for _, b := range bs {
				sk := fmt.Sprintf("|gsk?%d_%d|", id, n)
				n++
				body = strings.ReplaceAll(body, b.name, sk)
				sks = append(sks, sexprBinder{sk, b.sort})
			}
			return rec(body, depth+1)
		}
		if strings.HasPrefix(g, "(and ") && sexprEnd(g, 0) == len(g) {
			cs := topConjuncts(g)
			for i, c := range cs {
				cs[i] = rec(c, depth+1)
			}
			return "(and " + strings.Join(cs, " ") + ")"
		}
		if strings.HasPrefix(g, "(=> ") && sexprEnd(g, 0) == len(g) {
			in := g[4 : len(g)-1]
			ae := sexprEnd(in, 0)
			ante, cons := in[:ae], strings.TrimSpace(in[ae:])
			if sexprEnd(cons, 0) == len(cons) {
				// (=> (exists v. B) C) is (forall v. (=> B C)) when v is not free in C (bound names are unique)
				if strings.HasPrefix(ante, "(exists (") {
					if bs, body, ok := splitForall("(forall" + ante[len("(exists"):]); ok {
						for _, b := range bs {
							sk := fmt.Sprintf("|gsk?%d_%d|", id, n)
							n++
							body = strings.ReplaceAll(body, b.name, sk)
							sks = append(sks, sexprBinder{sk, b.sort})
						}
						ante = body
					}
				}
				return "(=> " + ante + " " + rec(cons, depth+1) + ")"
			}
		}
		return g
	}
	newGoal = rec(goal, 0)
	return newGoal, sks
}

// skolemInstances returns instances of the single-variable universal facts among the assertions at the
// skolem constants (and at shifted indices mentioned by those instances).
func skolemInstances(asserts []string, sks []sexprBinder, keys []sexprBinder) []string {
	type uni struct {
		v, sort, body string
	}
	var unis []uni
	for _, a := range asserts {
		for _, c := range topConjuncts(a) {
			if bs, body, ok := splitForall(c); ok && len(bs) == 1 {
				unis = append(unis, uni{bs[0].name, bs[0].sort, body})
			}
		}
	}
	seen := map[string]bool{}
	var out []string
	// universals with as many binders as the goal has skolem constants, of the same sorts in order:
	// one positional instance (e.g. an assumed "ascending" fact against a goal over i, j)
	if len(sks) >= 2 {
		for _, a := range asserts {
			for _, c := range topConjuncts(a) {
				bs, body, ok := splitForall(c)
				if !ok || len(bs) != len(sks) {
					continue
				}
				match := true
				for i := range bs {
					if bs[i].sort != sks[i].sort {
						match = false
					}
				}
				if !match {
					continue
				}
				inst := body
				for i := range bs {
					inst = strings.ReplaceAll(inst, bs[i].name, sks[i].name)
				}
				if !seen[inst] && len(inst) < 20000 {
					seen[inst] = true
					out = append(out, inst)
				}
			}
		}
	}
	instAt := func(t, sort string) []string {
		var made []string
		for _, u := range unis {
			if u.sort != sort {
				continue
			}
			inst := strings.ReplaceAll(u.body, u.v, t)
			if !seen[inst] && len(inst) < 20000 {
				seen[inst] = true
				out = append(out, inst)
				made = append(made, inst)
			}
		}
		return made
	}
	// map-iteration keys (the current key of each enclosing range loop) are the other terms a goal
	// about "every key" has to be compared with: single-variable facts are instantiated at them, and
	// facts with two or three binders at every combination of skolem constants and keys by sort
	if len(keys) > 0 && len(keys) <= 6 {
		for _, k := range keys {
			instAt(k.name, k.sort)
		}
		cands := append(append([]sexprBinder(nil), sks...), keys...)
		for _, a := range asserts {
			for _, c := range topConjuncts(a) {
				bs, body, ok := splitForall(c)
				if !ok || len(bs) < 2 || len(bs) > 3 {
					continue
				}
				combos := [][]string{{}}
				for _, b := range bs {
					var next [][]string
					for _, co := range combos {
						for _, cd := range cands {
							if cd.sort == b.sort {
								next = append(next, append(append([]string(nil), co...), cd.name))
							}
						}
					}
					combos = next
					if len(combos) > 27 {
						break
					}
				}
				if len(combos) > 27 {
					continue
				}
				for _, co := range combos {
					if len(co) != len(bs) {
						continue
					}
					inst := body
					for i := range bs {
						inst = strings.ReplaceAll(inst, bs[i].name, co[i])
					}
					if !seen[inst] && len(inst) < 20000 {
						seen[inst] = true
						out = append(out, inst)
					}
				}
			}
		}
	}
	for _, sk := range sks {
		first := instAt(sk.name, sk.sort)
		// shifted indices: (bvsub sk T) occurring in the instances
		shifted := map[string]bool{}
		var order []string
		for _, inst := range first {
			needle := "(bvsub " + sk.name + " "
			for from := 0; ; {
				j := strings.Index(inst[from:], needle)
				if j < 0 {
					break
				}
				st := from + j
				e := sexprEnd(inst, st)
				t := inst[st:e]
				if !shifted[t] && len(t) < 400 {
					shifted[t] = true
					order = append(order, t)
				}
				from = st + len(needle)
			}
		}
		// witness applications (sortwitN sk) introduced by the slices.Sort model
		for _, inst := range first {
			for from := 0; ; {
				j := strings.Index(inst[from:], "(sortwit")
				if j < 0 {
					break
				}
				st := from + j
				e := sexprEnd(inst, st)
				t := inst[st:e]
				if strings.HasSuffix(t, " "+sk.name+")") && !shifted[t] {
					shifted[t] = true
					order = append(order, t)
				}
				from = st + 8
			}
		}
		for k, t := range order {
			if k >= 5 {
				break
			}
			instAt(t, sk.sort)
		}
	}
	return out
}
