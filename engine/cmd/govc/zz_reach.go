package main

// assigns reach(p): the callee may write every memory location that can be reached from the object
// its argument p points to (p a pointer, or an interface holding a pointer) and nothing else. This
// is the frame of a reflection-based decoder: Decode(data, dest) fills *dest and what hangs off it.
// The set is over-approximated by type: all heap arrays that hold values of a type reachable from
// the pointee type. An interface, function or channel inside the pointee makes the set "everything".
//
// The same summary serves the static analysis that decides what a loop cut at its header forgets:
// a call to an uncontracted function of this module (inlined during symbolic execution) writes
// what its body writes; reach(p) items whose p is a parameter of that function are resolved
// against the arguments of the call.

import (
	"go/token"
	"go/types"
	"strings"

	"golang.org/x/tools/go/ssa"
)

// reachPrefixes: heap array prefixes that hold the contents of an object of type t and of
// everything reachable from it.
func (x *Exec) reachPrefixes(t types.Type) (names []string, all bool) {
	seen := map[string]bool{}
	set := map[string]bool{}
	var deep func(t types.Type)
	contents := func(t types.Type) {
		// the memory cell(s) of an object of type t
		if _, isS := t.Underlying().(*types.Struct); isS && !isBigInt(t) {
			for _, n := range x.arraysOfStructType(t) {
				set[n] = true
			}
		} else if isBigInt(t) {
			set["BigVal"] = true
		} else {
			set[cellPrefix(t)] = true
		}
		deep(t)
	}
	deep = func(t types.Type) {
		k := typeKey(t)
		if seen[k] {
			return
		}
		seen[k] = true
		if isBigInt(t) {
			set["BigVal"] = true
			return
		}
		switch u := t.Underlying().(type) {
		case *types.Basic:
			if u.Kind() == types.UnsafePointer {
				all = true
			}
		case *types.Pointer:
			contents(u.Elem())
		case *types.Slice:
			if _, isS := u.Elem().Underlying().(*types.Struct); isS && !isBigInt(u.Elem()) {
				for _, n := range x.arraysOfStructType(u.Elem()) {
					set[n] = true
				}
			} else {
				set[elemPrefix(u.Elem())] = true
			}
			deep(u.Elem())
		case *types.Array:
			if _, isS := u.Elem().Underlying().(*types.Struct); isS && !isBigInt(u.Elem()) {
				for _, n := range x.arraysOfStructType(u.Elem()) {
					set[n] = true
				}
			} else {
				set[elemPrefix(u.Elem())] = true
			}
			deep(u.Elem())
		case *types.Map:
			set[mapPrefix(u)] = true
			deep(u.Key())
			deep(u.Elem())
		case *types.Struct:
			for i := 0; i < u.NumFields(); i++ {
				deep(u.Field(i).Type())
			}
		default:
			// interface, func, chan, type parameter: anything may hang off it
			all = true
		}
	}
	contents(t)
	for n := range set {
		names = append(names, n)
	}
	sortStrings(names)
	return names, all
}

func isBigInt(t types.Type) bool {
	if n, ok := t.(*types.Named); ok && n.Obj().Pkg() != nil {
		return n.Obj().Pkg().Path() == "math/big" && (n.Obj().Name() == "Int" || n.Obj().Name() == "Rat" || n.Obj().Name() == "Float")
	}
	return false
}

func sortStrings(s []string) {
	for i := 1; i < len(s); i++ {
		for j := i; j > 0 && s[j] < s[j-1]; j-- {
			s[j], s[j-1] = s[j-1], s[j]
		}
	}
}

// staticPointee: the pointee type of an argument that is a pointer, or an interface made from a
// pointer at this very place (MakeInterface); nil when it cannot be told statically.
func staticPointee(v ssa.Value) types.Type {
	if mi, ok := v.(*ssa.MakeInterface); ok {
		v = mi.X
	}
	if cv, ok := v.(*ssa.ChangeInterface); ok {
		return staticPointee(cv.X)
	}
	if p, ok := v.Type().Underlying().(*types.Pointer); ok {
		return p.Elem()
	}
	return nil
}

// contractParamIndex: position (receiver first) of the parameter a contract calls name.
func contractParamIndex(fn *ssa.Function, con *FuncContract, name string) int {
	off := 0
	if fn.Signature.Recv() != nil {
		off = 1
		rn := con.Recv
		if rn == "" {
			rn = "recv"
		}
		if rn == name {
			return 0
		}
	}
	for i, p := range con.Params {
		if p == name {
			return i + off
		}
	}
	ps := fn.Signature.Params()
	for i := 0; i < ps.Len(); i++ {
		if ps.At(i).Name() == name {
			return i + off
		}
	}
	return -1
}

// reachItemParam: "reach(p)" -> "p".
func reachItemParam(it string) (string, bool) {
	if strings.HasPrefix(it, "reach(") && strings.HasSuffix(it, ")") {
		return strings.TrimSpace(it[6 : len(it)-1]), true
	}
	return "", false
}

// writeSummary: what a function of this module may write when it is inlined: heap array prefixes,
// reach() of some of its own parameters, or everything.
type writeSummary struct {
	names  map[string]bool
	params map[int]bool
	all    bool
}

var writeSummaryCache = map[*ssa.Function]*writeSummary{}

func (x *Exec) fnWriteSummary(fn *ssa.Function, depth int) *writeSummary {
	if s, ok := writeSummaryCache[fn]; ok {
		if s == nil {
			return &writeSummary{all: true} // recursion
		}
		return s
	}
	if depth > 5 || fn.Blocks == nil {
		return &writeSummary{all: true}
	}
	writeSummaryCache[fn] = nil
	s := &writeSummary{names: map[string]bool{}, params: map[int]bool{}}
	pidx := map[ssa.Value]int{}
	for i, p := range fn.Params {
		pidx[p] = i
	}
	for _, b := range fn.Blocks {
		for _, ins := range b.Instrs {
			switch i := ins.(type) {
			case *ssa.Store:
				if al, ok := i.Addr.(*ssa.Alloc); ok && !al.Heap {
					continue
				}
				for _, n := range x.arraysOfStore(i.Addr) {
					s.names[n] = true
				}
			case *ssa.MapUpdate:
				if mt, ok := i.Map.Type().Underlying().(*types.Map); ok {
					s.names[mapPrefix(mt)] = true
				} else {
					s.all = true
				}
			case *ssa.Send, *ssa.Go, *ssa.Defer, *ssa.Select:
				s.all = true
			case ssa.CallInstruction:
				cs := x.callWriteSummary(i.Common(), depth+1)
				if cs.all {
					s.all = true
					continue
				}
				for n := range cs.names {
					s.names[n] = true
				}
				for _, a := range cs.reachArgs {
					if k, ok := pidx[a]; ok {
						s.params[k] = true
						continue
					}
					t := staticPointee(a)
					if t == nil {
						s.all = true
						continue
					}
					ns, all := x.reachPrefixes(t)
					if all {
						s.all = true
					}
					for _, n := range ns {
						s.names[n] = true
					}
				}
			}
		}
	}
	writeSummaryCache[fn] = s
	return s
}

// callWrites: the summary of one call; reachArgs are argument values of this call whose reach()
// the callee may write.
type callWrites struct {
	names     map[string]bool
	reachArgs []ssa.Value
	all       bool
}

func (x *Exec) callWriteSummary(c *ssa.CallCommon, depth int) *callWrites {
	out := &callWrites{names: map[string]bool{}}
	if !x.callMayWriteHeapDepth(c, depth) {
		return out
	}
	if bi, ok := c.Value.(*ssa.Builtin); ok {
		switch bi.Name() {
		case "append", "copy":
			if sl, ok := c.Args[0].Type().Underlying().(*types.Slice); ok {
				if _, isS := sl.Elem().Underlying().(*types.Struct); isS {
					for _, n := range x.arraysOfStructType(sl.Elem()) {
						out.names[n] = true
					}
				} else {
					out.names[elemPrefix(sl.Elem())] = true
				}
				return out
			}
		case "delete":
			if mt, ok := c.Args[0].Type().Underlying().(*types.Map); ok {
				out.names[mapPrefix(mt)] = true
				return out
			}
		case "clear":
		}
		out.all = true
		return out
	}
	fn := c.StaticCallee()
	if fn == nil || c.IsInvoke() {
		out.all = true
		return out
	}
	if strings.HasPrefix(funcKey(fn), "math/big.") {
		out.names["BigVal"] = true
		return out
	}
	if ns, ok := bufferWrites[funcKey(fn)]; ok {
		// the bytes.Buffer model (zz_buffer.go)
		for _, n := range ns {
			out.names[n] = true
		}
		return out
	}
	if con := x.CS.Funcs[funcKey(fn)]; con != nil && !con.Inline {
		save := x.curCall
		x.curCall = c
		ns, ok := x.assignsArrayNames(fn, con)
		x.curCall = save
		if !ok {
			out.all = true
			return out
		}
		for _, n := range ns {
			out.names[n] = true
		}
		for _, cl := range con.Clauses {
			if cl.Kind != "assigns" {
				continue
			}
			for _, it := range splitTop(cl.Text, ',') {
				if p, ok := reachItemParam(strings.TrimSpace(it)); ok {
					k := contractParamIndex(fn, con, p)
					if k < 0 || k >= len(c.Args) {
						out.all = true
						return out
					}
					out.reachArgs = append(out.reachArgs, c.Args[k])
				}
			}
		}
		return out
	}
	if x.P.InModule(fn) && fn.Blocks != nil {
		s := x.fnWriteSummary(fn, depth)
		if s.all {
			out.all = true
			return out
		}
		for n := range s.names {
			out.names[n] = true
		}
		for k := range s.params {
			if k >= len(c.Args) {
				out.all = true
				return out
			}
			out.reachArgs = append(out.reachArgs, c.Args[k])
		}
		return out
	}
	out.all = true
	return out
}

// callWriteNames resolves a call's summary completely (reach() of arguments by their static type).
func (x *Exec) callWriteNames(c *ssa.CallCommon) (names []string, ok bool) {
	cs := x.callWriteSummary(c, 0)
	if cs.all {
		return nil, false
	}
	set := map[string]bool{}
	for n := range cs.names {
		set[n] = true
	}
	for _, a := range cs.reachArgs {
		t := staticPointee(a)
		if t == nil {
			return nil, false
		}
		ns, all := x.reachPrefixes(t)
		if all {
			return nil, false
		}
		for _, n := range ns {
			set[n] = true
		}
	}
	for n := range set {
		names = append(names, n)
	}
	sortStrings(names)
	return names, true
}

// havocReach applies "assigns reach(p)" at a call site: v is the argument's value.
func (x *Exec) havocReach(st *State, v Value) {
	var t types.Type
	switch vv := v.(type) {
	case *PtrV:
		t = vv.Elem
	case *IfaceV:
		if vv.Tag.IsConst {
			if ct, ok := x.tagTypes[int(vv.Tag.BVal.Int64())]; ok {
				if p, ok := ct.Underlying().(*types.Pointer); ok {
					t = p.Elem()
				}
			}
		}
	}
	if t == nil {
		x.heapHavocAllCallee(st)
		return
	}
	if _, isIface := t.Underlying().(*types.Interface); isIface {
		// decoding into an interface variable that holds nil: the decoder stores a value it
		// allocated itself; nothing that existed before is written except the variable
		if p, ok := v.(*PtrV); ok {
			if cur, ok := x.Load(st, p).(*IfaceV); ok && cur.Tag.IsConst && cur.Tag.BVal != nil && cur.Tag.BVal.Sign() == 0 {
				x.StoreTo(st, p, x.freshValue(st, t, "hv.reach"))
				return
			}
		} else if iv, ok := v.(*IfaceV); ok && iv.Tag.IsConst {
			if ct, ok := x.tagTypes[int(iv.Tag.BVal.Int64())]; ok {
				var p *PtrV
				func() {
					defer func() {
						if r := recover(); r != nil {
							p = nil
						}
					}()
					p, _ = x.unbox(st, ct, iv).(*PtrV)
				}()
				if p != nil {
					if cur, ok := x.Load(st, p).(*IfaceV); ok && cur.Tag.IsConst && cur.Tag.BVal != nil && cur.Tag.BVal.Sign() == 0 {
						x.StoreTo(st, p, x.freshValue(st, t, "hv.reach"))
						return
					}
				}
			}
		}
	}
	if flatType(t, 0) {
		// nothing hangs off the pointee: exactly that one object is written
		var p *PtrV
		switch vv := v.(type) {
		case *PtrV:
			p = vv
		case *IfaceV:
			ct := x.tagTypes[int(vv.Tag.BVal.Int64())]
			func() {
				// a boxed pointer into the middle of an object cannot be unboxed by the model:
				// fall back to the frame by type
				defer func() {
					if r := recover(); r != nil {
						p = nil
					}
				}()
				p, _ = x.unbox(st, ct, vv).(*PtrV)
			}()
		}
		if p != nil {
			x.StoreTo(st, p, x.freshValue(st, t, "hv.reach"))
			return
		}
	}
	ns, all := x.reachPrefixes(t)
	if all {
		x.heapHavocAllCallee(st)
		return
	}
	x.fresh++
	tag := "r" + itoa(x.fresh)
	for _, pfx := range ns {
		var hs []string
		for hn := range st.heap {
			if hn == pfx || strings.HasPrefix(hn, pfx+".") {
				hs = append(hs, hn)
			}
		}
		sortStrings(hs)
		for _, hn := range hs {
			x.heapHavocKeepPrivate(st, hn)
		}
		x.recordLoopHavoc(st, pfx, tag, false)
	}
	x.bumpEpoch(st)
}

// heapHavocKeepPrivate forgets an array except at the non-escaping locals and private objects of
// the function under verification, which no callee can reach: what is cached about them (stored
// values, and values loaded earlier - see heapSelect) survives the havoc (havocKeepStack).
func (x *Exec) heapHavocKeepPrivate(st *State, hn string) {
	x.heapHavoc(st, hn)
}

// heapHavocAllCallee: a callee without frame information wrote the whole heap - except the
// non-escaping locals and private objects of the function under verification.
func (x *Exec) heapHavocAllCallee(st *State) {
	x.heapHavocAll(st)
}

// loopInvariantLocals: variables of the function (ssa.Alloc) that are private at the loop head and
// that the loop can neither write nor hand out: inside the loop their address is only loaded from,
// and it is never stored anywhere. A loop that forgets the whole heap leaves them as they were.
func (x *Exec) loopInvariantLocals(fr *Frame, st *State, li *loopInfo) map[string]bool {
	out := map[string]bool{}
	for v, val := range fr.vals {
		al, ok := v.(*ssa.Alloc)
		if !ok || al.Parent() != fr.fn || li.blocks[al.Block()] {
			continue
		}
		p, ok := val.(*PtrV)
		if !ok || !st.stack[p.Ref.S] {
			continue
		}
		if al.Referrers() == nil {
			continue
		}
		okAll := addrUsesLeaveMemoryAlone(al, li, 0)
		if okAll {
			out[p.Ref.S] = true
		}
	}
	return out
}

// heapHavocAllKeeping: a loop cut at its header forgets the whole heap, including what is cached
// about locals (the loop may write them), except the memory of the given objects.
func (x *Exec) heapHavocAllKeeping(st *State, only map[string]bool) {
	x.heapHavocAll(st)
	for name, c := range st.fwd {
		nc := &fwdCache{arr: c.arr, ent: map[string]*Term{}}
		for k, v := range c.ent {
			if only[k] || only[x.refRoot[k]] {
				nc.ent[k] = v
			}
		}
		if len(nc.ent) == 0 {
			delete(st.fwd, name)
		} else {
			st.fwd[name] = nc
		}
	}
}

// noteRefArrays records which arrays hold the memory of a freshly allocated object.
func (x *Exec) noteRefArrays(ref *Term, elem types.Type) {
	if x.refArrays == nil {
		x.refArrays = map[string][]string{}
	}
	switch u := elem.Underlying().(type) {
	case *types.Struct:
		if !isBigInt(elem) {
			x.refArrays[ref.S] = x.arraysOfStructType(elem)
			return
		}
		x.refArrays[ref.S] = []string{"BigVal"}
	case *types.Array:
		if _, isS := u.Elem().Underlying().(*types.Struct); isS {
			x.refArrays[ref.S] = x.arraysOfStructType(u.Elem())
		} else {
			x.refArrays[ref.S] = []string{elemPrefix(u.Elem()), cellPrefix(elem)}
		}
	default:
		x.refArrays[ref.S] = []string{cellPrefix(elem)}
	}
}

func itoa(n int) string {
	if n == 0 {
		return "0"
	}
	s := ""
	for n > 0 {
		s = string(rune('0'+n%10)) + s
		n /= 10
	}
	return s
}

// Whole-array assigns items: cells(T) - the memory cell of every variable of type T (for a struct
// type: every field of every object); elems(T) - the elements of every slice / array of T;
// gfall(name) - the ghost field of every object. They are the frames of functions that decode into
// local variables: by type, what such a callee may have written.
func (x *Exec) wholeArrayItem(pkg *types.Package, item string) (names []string, ok bool) {
	kind := ""
	for _, k := range []string{"cells(", "elems(", "gfall("} {
		if strings.HasPrefix(item, k) && strings.HasSuffix(item, ")") {
			kind = k
		}
	}
	if kind == "" {
		return nil, false
	}
	arg := strings.TrimSpace(item[len(kind) : len(item)-1])
	if kind == "gfall(" {
		return []string{"GF:" + arg}, true
	}
	t := x.P.LookupType(pkg, arg)
	if t == nil {
		unsupported("assigns: unknown type %s", arg)
	}
	if _, isS := t.Underlying().(*types.Struct); isS && !isBigInt(t) {
		return x.arraysOfStructType(t), true
	}
	if kind == "cells(" {
		return []string{cellPrefix(t)}, true
	}
	return []string{elemPrefix(t)}, true
}

// havocWhole forgets the named arrays (present ones now, absent ones by generation).
func (x *Exec) havocWhole(st *State, names []string) {
	x.fresh++
	tag := "w" + itoa(x.fresh)
	for _, pfx := range names {
		var hs []string
		for hn := range st.heap {
			if hn == pfx || strings.HasPrefix(hn, pfx+".") {
				hs = append(hs, hn)
			}
		}
		sortStrings(hs)
		for _, hn := range hs {
			x.heapHavocKeepPrivate(st, hn)
		}
		x.recordLoopHavoc(st, pfx, tag, false)
	}
	x.bumpEpoch(st)
}

// flatType: values of t hold no reference (no pointer, slice, map, interface, function, channel).
func flatType(t types.Type, depth int) bool {
	if depth > 8 || isBigInt(t) {
		return false
	}
	switch u := t.Underlying().(type) {
	case *types.Basic:
		return u.Kind() != types.UnsafePointer
	case *types.Array:
		return flatType(u.Elem(), depth+1)
	case *types.Struct:
		for i := 0; i < u.NumFields(); i++ {
			if !flatType(u.Field(i).Type(), depth+1) {
				return false
			}
		}
		return true
	}
	return false
}

// noRetain: "attr noretain on" on a (trusted) contract says the callee keeps no reference to its
// arguments once it has returned. What it was handed is forgotten for the duration of the call (it
// may write it) and is private to the function under verification again afterwards.
func (x *Exec) noRetain(st *State, con *FuncContract, ret callK) callK {
	if con == nil || con.Attrs["noretain"] != "on" || len(st.priv) == 0 {
		return ret
	}
	privBefore := map[string]bool{}
	for k := range st.priv {
		privBefore[k] = true
	}
	stackBefore := map[string]bool{}
	for k := range st.stack {
		stackBefore[k] = true
	}
	return func(fr2 *Frame, st2 *State, v Value) {
		for k := range privBefore {
			if st2.priv == nil {
				st2.priv = map[string]bool{}
			}
			st2.priv[k] = true
		}
		for k := range stackBefore {
			if st2.stack == nil {
				st2.stack = map[string]bool{}
			}
			st2.stack[k] = true
		}
		ret(fr2, st2, v)
	}
}

// addrUsesLeaveMemoryAlone: the address v (a variable, or a field / element of one) is never stored
// anywhere, and inside the loop it is only loaded from (directly or through field / element
// addresses): the loop can neither write the memory behind it nor hand it out.
func addrUsesLeaveMemoryAlone(v ssa.Value, li *loopInfo, depth int) bool {
	if depth > 4 || v.Referrers() == nil {
		return depth <= 4
	}
	for _, r := range *v.Referrers() {
		inLoop := r.Block() != nil && li.blocks[r.Block()]
		switch u := r.(type) {
		case *ssa.DebugRef, *ssa.Return:
			// (returning the address ends the function: nothing runs afterwards)
		case *ssa.UnOp:
			if u.Op != token.MUL {
				return false
			}
		case *ssa.Store:
			// a store to the variable outside the loop is fine; its address must never be stored
			if u.Val == v || inLoop {
				return false
			}
		case *ssa.FieldAddr:
			if !addrUsesLeaveMemoryAlone(u, li, depth+1) {
				return false
			}
		case *ssa.IndexAddr:
			if u.X != v || !addrUsesLeaveMemoryAlone(u, li, depth+1) {
				return false
			}
		case *ssa.MakeInterface, ssa.CallInstruction:
			// handed to a callee before the loop: whether it is private again is known from
			// the state at the loop head (st.stack); inside the loop it would escape
			if inLoop {
				return false
			}
		default:
			return false
		}
	}
	return true
}
