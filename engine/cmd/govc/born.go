package main

import (
	"fmt"
	"strings"
)

// Every heap-array symbol remembers how many objects this run had allocated when the symbol came into
// existence (entry arrays: 0; arrays produced by a havoc: the count at the havoc). A reference read
// directly from such a symbol (no store in between) cannot be an object allocated later, so it is
// bounded by refK*(alloc0+born) - and is "old" when born is 0. This is the heap well-formedness
// assumption "memory only refers to memory that already exists".

func (x *Exec) noteBorn(sym *Term) {
	if x.arrBorn == nil {
		x.arrBorn = map[string]int{}
	}
	if _, ok := x.arrBorn[sym.S]; !ok {
		x.arrBorn[sym.S] = x.allocCount
	}
}

// boundLoadedRef adds the bound for a reference term of the form (select SYM idx) or
// (select (select SYM base) idx).
func (x *Exec) boundLoadedRef(st *State, t *Term) {
	s := t.S
	for strings.HasPrefix(s, "(select ") {
		s = s[8:]
	}
	if !strings.HasPrefix(s, "|") {
		return
	}
	end := strings.Index(s[1:], "|")
	if end < 0 {
		return
	}
	sym := s[:end+2]
	born, ok := x.arrBorn[sym]
	if !ok {
		return
	}
	if born == 0 {
		x.assumeOld(st, t)
		x.noteBornFact(IntCmp("<=", t, IntBin("*", IntConstI(refK), x.allocBase)), sym, born)
		return
	}
	f := IntCmp("<=", t, IntBin("*", IntConstI(refK), IntBin("+", x.allocBase, IntConstI(int64(born)))))
	st.Assume(f)
	x.noteUB(t, born)
	x.noteBornFact(f, sym, born)
}

type bornFact struct {
	sym  string
	born int
}

func (x *Exec) noteBornFact(f *Term, sym string, born int) {
	if x.bornFacts == nil {
		x.bornFacts = map[string]bornFact{}
	}
	x.bornFacts[f.S] = bornFact{sym, born}
}

// assumeBornAxiom states, once per state and heap-array symbol, the universal form of the
// born-bound: every reference stored anywhere in that array denotes memory that existed when the
// array symbol came into being. It is used where the instance for a particular cell mentions a
// bound variable (inside a quantified invariant): as an antecedent the instance would make the
// assumed invariant useless, because nothing lets the solver establish it for an arbitrary index.
func (x *Exec) assumeBornAxiom(st *State, bf bornFact) bool {
	key := "$bornax:" + bf.sym
	if _, done := st.ghost[key]; done {
		return true
	}
	srt, ok := x.D.consts[bf.sym]
	if !ok {
		return false
	}
	var binders []string
	app := bf.sym
	cur := srt
	for i := 0; cur.K == KArray; i++ {
		v := fmt.Sprintf("|ba?%d|", i)
		binders = append(binders, fmt.Sprintf("(%s %s)", v, cur.Idx.String()))
		app = fmt.Sprintf("(select %s %s)", app, v)
		cur = *cur.Elt
	}
	if cur.K != KInt || len(binders) == 0 {
		return false
	}
	bound := IntBin("*", IntConstI(refK), IntBin("+", x.allocBase, IntConstI(int64(bf.born))))
	if bf.born == 0 {
		bound = IntBin("*", IntConstI(refK), x.allocBase)
	}
	txt := fmt.Sprintf("(forall (%s) (! (<= %s %s) :pattern (%s)))", strings.Join(binders, " "), app, bound.S, app)
	st.Assume(&Term{S: txt, Sort: SBool})
	st.ghost[key] = TTrue
	return true
}

// boundValueRefs bounds every reference inside a freshly havocked value (a loop-carried variable
// at the loop head, a callee's result): it denotes memory that exists now, so it cannot be an object
// this run allocates later.
func (x *Exec) boundValueRefs(st *State, v Value) {
	bound := IntBin("*", IntConstI(refK), IntBin("+", x.allocBase, IntConstI(int64(x.allocCount))))
	// (no syntactic "old" classification here: a loop-carried reference may denote an object that an
	// earlier iteration allocated, which did not exist at entry; the recorded bound still lets reads
	// through it bypass stores to objects allocated later, see heapSelect)
	old := false
	var visit func(v Value)
	visit = func(v Value) {
		switch vv := v.(type) {
		case *PtrV:
			if vv.Ref != nil && !vv.Ref.IsConst {
				st.Assume(IntCmp("<=", vv.Ref, bound))
				x.noteUB(vv.Ref, x.allocCount)
				if old && st.class(vv.Ref) == 0 {
					st.setClass(vv.Ref, refOld)
				}
			}
		case *SliceV:
			if !vv.Base.IsConst {
				st.Assume(IntCmp("<=", vv.Base, bound))
				x.noteUB(vv.Base, x.allocCount)
				if old && st.class(vv.Base) == 0 {
					st.setClass(vv.Base, refOld)
				}
			}
		case *IfaceV:
			if !vv.Ref.IsConst {
				st.Assume(IntCmp("<=", vv.Ref, bound))
				x.noteUB(vv.Ref, x.allocCount)
				if old && st.class(vv.Ref) == 0 {
					st.setClass(vv.Ref, refOld)
				}
			}
		case *StructV:
			for _, f := range vv.Fields {
				visit(f)
			}
		case *TupleV:
			for _, e := range vv.Elems {
				visit(e)
			}
		}
	}
	visit(v)
}

// elemRefSt is elemRef plus the facts that follow from the base: an element of a backing array that
// existed at entry existed at entry (and is classified old, so that reads bypass stores to objects
// allocated during the run); an element of a fresh array is fresh.
func (x *Exec) elemRefSt(st *State, base, idx *Term) *Term {
	r := x.elemRef(base, idx)
	x.needElemAxiom = true
	// instances of "elemref is injective": distinct elements (of the same or of different backing
	// arrays) are distinct objects
	f1 := Eq(x.D.Fun("elemref_base", SInt, r), base)
	f2 := Eq(x.D.Fun("elemref_idx", SBV64, r), idx)
	// an element of an array of structs is neither an allocation root (a multiple of refK) nor a
	// sub-object named by a field constant (residues 1..refK-2): its residue is refK-1
	f3 := Eq(&Term{S: fmt.Sprintf("(mod %s %d)", r.S, refK), Sort: SInt}, IntConstI(refK-1))
	for _, f := range []*Term{f1, f2, f3} {
		st.Assume(f)
		// instances of axiom schemas: true for every base and index, so under a binder they are
		// neither antecedents nor conjuncts (see the quantifier case of the specification evaluator)
		x.noteValid(f)
	}
	switch st.class(base) {
	case refOld:
		st.setClass(r, refOld)
	case refFresh:
		st.setClass(r, refFresh)
	}
	return r
}

// noteValid records a fact that is an instance of a universally valid schema.
func (x *Exec) noteValid(f *Term) {
	if x.validFacts == nil {
		x.validFacts = map[string]bool{}
	}
	x.validFacts[f.S] = true
}
