package main

import "strings"

// Every heap-array symbol remembers how many objects this run had allocated when the symbol came into
// existence (entry arrays: 0; arrays produced by a havoc: the count at the havoc). A reference read
// directly from such a symbol (no store in between) cannot be an object allocated later, so it is
// bounded by refK*(alloc0+born) - and is "old" when born is 0. This is the heap well-formedness
// assumption "memory only refers to memory that already exists".

func (x *Exec) noteBorn(sym *Term) {
	if x.arrBorn == nil {
		x.arrBorn = map[string]int{}
	}
	if _, ok := x.arrBorn[sym.S]; !ok {
		x.arrBorn[sym.S] = x.allocCount
	}
}

// boundLoadedRef adds the bound for a reference term of the form (select SYM idx) or
// (select (select SYM base) idx).
func (x *Exec) boundLoadedRef(st *State, t *Term) {
	s := t.S
	for strings.HasPrefix(s, "(select ") {
		s = s[8:]
	}
	if !strings.HasPrefix(s, "|") {
		return
	}
	end := strings.Index(s[1:], "|")
	if end < 0 {
		return
	}
	sym := s[:end+2]
	born, ok := x.arrBorn[sym]
	if !ok {
		return
	}
	if born == 0 {
		x.assumeOld(st, t)
		return
	}
	st.Assume(IntCmp("<=", t, IntBin("*", IntConstI(refK), IntBin("+", x.allocBase, IntConstI(int64(born))))))
}

// boundValueRefs bounds every reference inside a freshly havocked value (a loop-carried variable
// at the loop head, a callee's result): it denotes memory that exists now, so it cannot be an object
// this run allocates later.
func (x *Exec) boundValueRefs(st *State, v Value) {
	bound := IntBin("*", IntConstI(refK), IntBin("+", x.allocBase, IntConstI(int64(x.allocCount))))
	var visit func(v Value)
	visit = func(v Value) {
		switch vv := v.(type) {
		case *PtrV:
			if vv.Ref != nil && !vv.Ref.IsConst {
				st.Assume(IntCmp("<=", vv.Ref, bound))
			}
		case *SliceV:
			if !vv.Base.IsConst {
				st.Assume(IntCmp("<=", vv.Base, bound))
			}
		case *IfaceV:
			if !vv.Ref.IsConst {
				st.Assume(IntCmp("<=", vv.Ref, bound))
			}
		case *StructV:
			for _, f := range vv.Fields {
				visit(f)
			}
		case *TupleV:
			for _, e := range vv.Elems {
				visit(e)
			}
		}
	}
	visit(v)
}

// elemRefSt is elemRef plus the facts that follow from the base: an element of a backing array that
// existed at entry existed at entry (and is classified old, so that reads bypass stores to objects
// allocated during the run); an element of a fresh array is fresh.
func (x *Exec) elemRefSt(st *State, base, idx *Term) *Term {
	r := x.elemRef(base, idx)
	x.needElemAxiom = true
	switch st.class(base) {
	case refOld:
		st.setClass(r, refOld)
	case refFresh:
		st.setClass(r, refFresh)
	}
	return r
}
