package main

// Symbolic values, heap model, type shapes.

import (
	"fmt"
	"go/types"
	"math/big"
	"regexp"
	"sort"
	"strings"

	"golang.org/x/tools/go/ssa"
)

type Value interface{}

type SliceV struct {
	Base, Off, Len, Cap *Term // Base Int, others BV64
}

type IfaceV struct{ Tag, Ref *Term } // Int, Int

type StructV struct {
	T      *types.Struct
	Fields []Value
}

type TupleV struct{ Elems []Value }

type FieldLoc struct {
	Owner string // struct type key
	Name  string
	Type  types.Type
}

type PtrV struct {
	Ref   *Term // Int
	Elem  types.Type
	Fld   *FieldLoc // pointer to a scalar field of struct object Ref
	Idx   *Term     // slice element index (absolute, BV64) when SliceElem; byte index when Inner != nil
	SlEl  bool
	Inner *PtrV // pointer into a [n]byte location
	// LazyStruct: produced by a specification's field selection of a struct-typed field; it stands
	// for the struct VALUE at the time of evaluation, not for a pointer
	LazyStruct bool
	// Backed: a local [n]byte variable whose address is sliced; its bytes live in the element heap
	// (like a slice backing array) so that writes through the slice reach the array
	Backed bool
}

type FuncV struct {
	Fn   *ssa.Function
	Free []Value
	Sym  *Term // symbolic function value (Int) when Fn == nil
	// bound method closure
	Recv Value
}

type ArrV struct { // small non-byte arrays
	Elems []Value
}

type IterV struct {
	Map     *Term // map ref
	MapT    *types.Map
	Visited string // ghost key in state
	Str     bool
}

const refK = 4096 // sub-object address arithmetic constant

type pcNode struct {
	t    *Term
	prev *pcNode
	n    int
}

type State struct {
	heap    map[string]*Term
	pc      *pcNode
	allocs  []*Term // fresh refs allocated on this path
	ghost   map[string]Value
	visits  map[int]int // loop header block index (per frame id) -> visits for unrolled loops
	trace   []string
	dead    bool
	callSeq map[string]int
	fwd     map[string]*fwdCache
	refClass map[string]int8 // syntactic classification of reference terms on this path (fresh / old)
	stack    map[string]bool // references into non-escaping locals
	priv     map[string]bool // allocation roots of private objects (zz_private.go)
	facts    *constFacts     // term/constant (dis)equalities learned from branches
	// readsOld: scratch state in which the definition of an opaque spec function is evaluated: every
	// reference not known to be fresh denotes memory that existed at entry
	readsOld bool
}

func NewState() *State {
	return &State{heap: map[string]*Term{}, ghost: map[string]Value{}, visits: map[int]int{}, callSeq: map[string]int{}}
}

func (s *State) Clone() *State {
	n := &State{heap: make(map[string]*Term, len(s.heap)), pc: s.pc, ghost: make(map[string]Value, len(s.ghost)), visits: make(map[int]int, len(s.visits)), callSeq: make(map[string]int, len(s.callSeq))}
	for k, v := range s.heap {
		n.heap[k] = v
	}
	for k, v := range s.ghost {
		n.ghost[k] = v
	}
	for k, v := range s.visits {
		n.visits[k] = v
	}
	for k, v := range s.callSeq {
		n.callSeq[k] = v
	}
	n.allocs = append([]*Term(nil), s.allocs...)
	n.trace = append([]string(nil), s.trace...)
	if s.refClass != nil {
		n.refClass = make(map[string]int8, len(s.refClass))
		for k, v := range s.refClass {
			n.refClass[k] = v
		}
	}
	n.facts = s.facts.clone()
	n.readsOld = s.readsOld
	if s.stack != nil {
		n.stack = make(map[string]bool, len(s.stack))
		for k, v := range s.stack {
			n.stack[k] = v
		}
	}
	if s.priv != nil {
		n.priv = make(map[string]bool, len(s.priv))
		for k, v := range s.priv {
			n.priv[k] = v
		}
	}
	if s.fwd != nil {
		n.fwd = make(map[string]*fwdCache, len(s.fwd))
		for k, c := range s.fwd {
			// caches are replaced, never mutated in place, so sharing is safe
			n.fwd[k] = c
		}
	}
	return n
}

func (s *State) Assume(t *Term) {
	if t.IsConst {
		if !t.BoolVal {
			s.dead = true
		}
		return
	}
	n := 1
	if s.pc != nil {
		n = s.pc.n + 1
	}
	s.pc = &pcNode{t: t, prev: s.pc, n: n}
}

func (s *State) PC() []*Term {
	var out []*Term
	for n := s.pc; n != nil; n = n.prev {
		out = append(out, n.t)
	}
	for i, j := 0, len(out)-1; i < j; i, j = i+1, j-1 {
		out[i], out[j] = out[j], out[i]
	}
	return out
}

// ---------- type helpers ----------

func intInfo(t types.Type) (w int, signed bool, ok bool) {
	b, isB := t.Underlying().(*types.Basic)
	if !isB {
		return 0, false, false
	}
	switch b.Kind() {
	case types.Int, types.Int64, types.UntypedInt:
		return 64, true, true
	case types.Int8:
		return 8, true, true
	case types.Int16:
		return 16, true, true
	case types.Int32, types.UntypedRune:
		return 32, true, true
	case types.Uint, types.Uint64, types.Uintptr:
		return 64, false, true
	case types.Uint8:
		return 8, false, true
	case types.Uint16:
		return 16, false, true
	case types.Uint32:
		return 32, false, true
	}
	return 0, false, false
}

func isBool(t types.Type) bool {
	b, ok := t.Underlying().(*types.Basic)
	return ok && (b.Kind() == types.Bool || b.Kind() == types.UntypedBool)
}
func isString(t types.Type) bool {
	b, ok := t.Underlying().(*types.Basic)
	return ok && (b.Kind() == types.String || b.Kind() == types.UntypedString)
}
func isFloat(t types.Type) bool {
	b, ok := t.Underlying().(*types.Basic)
	return ok && (b.Kind() == types.Float64 || b.Kind() == types.Float32 || b.Kind() == types.UntypedFloat)
}

// byteArrayLen returns n if t is [n]byte (n<=64, n>0), else -1.
func byteArrayLen(t types.Type) int {
	a, ok := t.Underlying().(*types.Array)
	if !ok {
		return -1
	}
	b, ok := a.Elem().Underlying().(*types.Basic)
	if !ok || b.Kind() != types.Uint8 {
		return -1
	}
	if a.Len() <= 0 || a.Len() > 64 {
		return -1
	}
	return int(a.Len())
}

var anyWord = regexp.MustCompile(`\bany\b`)
var byteWord = regexp.MustCompile(`(^|[^./\w])byte\b`)
var runeWord = regexp.MustCompile(`(^|[^./\w])rune\b`)

// typeKey is the canonical name of a type (heap arrays and type tags are keyed by it). The alias
// `any` is normalised to interface{} so that both spellings denote the same memory.
// deepUnalias resolves type aliases (type A = T) at every level of the common type constructors, so
// that a heap array or a dynamic-type tag is named after the type itself, never after an alias of it.
func deepUnalias(t types.Type) types.Type {
	t = types.Unalias(t)
	switch u := t.(type) {
	case *types.Pointer:
		if e := deepUnalias(u.Elem()); e != u.Elem() {
			return types.NewPointer(e)
		}
	case *types.Slice:
		if e := deepUnalias(u.Elem()); e != u.Elem() {
			return types.NewSlice(e)
		}
	case *types.Array:
		if e := deepUnalias(u.Elem()); e != u.Elem() {
			return types.NewArray(e, u.Len())
		}
	case *types.Map:
		k, e := deepUnalias(u.Key()), deepUnalias(u.Elem())
		if k != u.Key() || e != u.Elem() {
			return types.NewMap(k, e)
		}
	case *types.Chan:
		if e := deepUnalias(u.Elem()); e != u.Elem() {
			return types.NewChan(u.Dir(), e)
		}
	}
	return t
}

func typeKey(t types.Type) string {
	s := types.TypeString(deepUnalias(t), nil)
	if strings.Contains(s, "any") {
		s = anyWord.ReplaceAllString(s, "interface{}")
	}
	if strings.Contains(s, "byte") {
		s = byteWord.ReplaceAllString(s, "${1}uint8")
	}
	if strings.Contains(s, "rune") {
		s = runeWord.ReplaceAllString(s, "${1}int32")
	}
	return s
}

type Unsupported struct{ Msg string }

func (u *Unsupported) Error() string { return "unsupported: " + u.Msg }

func unsupported(f string, a ...any) { panic(&Unsupported{fmt.Sprintf(f, a...)}) }

// comp describes one SMT component of a Go value.
type comp struct {
	suffix string
	sort   Sort
}

// compsOf returns the flat SMT components of a non-struct type (struct fields are addressed separately).
func (x *Exec) compsOf(t types.Type) []comp {
	switch u := t.Underlying().(type) {
	case *types.Basic:
		if isBool(t) {
			return []comp{{"", SBool}}
		}
		if w, _, ok := intInfo(t); ok {
			return []comp{{"", BV(w)}}
		}
		if isString(t) {
			return []comp{{"", SStr}}
		}
		if isFloat(t) {
			return []comp{{"", SFP64}}
		}
		if u.Kind() == types.UnsafePointer {
			return []comp{{"", SInt}}
		}
		unsupported("basic type %s", t)
	case *types.Pointer, *types.Map, *types.Chan, *types.Signature:
		return []comp{{"", SInt}}
	case *types.Slice:
		return []comp{{".base", SInt}, {".off", SBV64}, {".len", SBV64}, {".cap", SBV64}}
	case *types.Interface:
		return []comp{{".tag", SInt}, {".ref", SInt}}
	case *types.Array:
		if n := byteArrayLen(t); n > 0 {
			return []comp{{"", BV(8 * n)}}
		}
		// generic array: SMT array indexed by BV64 per element component (only scalar element types)
		ec := x.compsOf(u.Elem())
		var out []comp
		for _, c := range ec {
			out = append(out, comp{".arr" + c.suffix, ArraySort(SBV64, c.sort)})
		}
		return out
	case *types.Struct:
		// flatten by-value struct (used for struct values inside cells/interfaces/elements)
		var out []comp
		for i := 0; i < u.NumFields(); i++ {
			f := u.Field(i)
			for _, c := range x.compsOf(f.Type()) {
				out = append(out, comp{"." + f.Name() + c.suffix, c.sort})
			}
		}
		return out
	case *types.Tuple:
		unsupported("tuple in heap")
	case *types.TypeParam:
		unsupported("type parameter %s", t)
	}
	unsupported("type %s", t)
	return nil
}

// flatten converts a value of type t into its component terms.
func (x *Exec) flatten(t types.Type, v Value) []*Term {
	switch u := t.Underlying().(type) {
	case *types.Basic:
		return []*Term{v.(*Term)}
	case *types.Pointer:
		p := v.(*PtrV)
		if p.Fld != nil || p.SlEl || p.Inner != nil || p.Backed {
			unsupported("interior pointer escapes to the heap (%s)", t)
		}
		return []*Term{p.Ref}
	case *types.Map, *types.Chan:
		return []*Term{v.(*Term)}
	case *types.Signature:
		f := v.(*FuncV)
		return []*Term{x.funcTerm(f)}
	case *types.Slice:
		s := v.(*SliceV)
		return []*Term{s.Base, s.Off, s.Len, s.Cap}
	case *types.Interface:
		i := v.(*IfaceV)
		return []*Term{i.Tag, i.Ref}
	case *types.Array:
		if byteArrayLen(t) > 0 {
			return []*Term{v.(*Term)}
		}
		a, ok := v.(*ArrSym)
		if !ok {
			unsupported("array value flatten %T", v)
		}
		return a.Comps
	case *types.Struct:
		sv := v.(*StructV)
		var out []*Term
		for i := 0; i < u.NumFields(); i++ {
			out = append(out, x.flatten(u.Field(i).Type(), sv.Fields[i])...)
		}
		return out
	}
	unsupported("flatten %s", t)
	return nil
}

// ArrSym: generic array value as SMT arrays per component.
type ArrSym struct {
	Comps []*Term
	Len   int64
}

func (x *Exec) unflatten(t types.Type, ts []*Term) (Value, []*Term) {
	switch u := t.Underlying().(type) {
	case *types.Basic:
		return ts[0], ts[1:]
	case *types.Pointer:
		return &PtrV{Ref: ts[0], Elem: u.Elem()}, ts[1:]
	case *types.Map, *types.Chan:
		return ts[0], ts[1:]
	case *types.Signature:
		return &FuncV{Sym: ts[0]}, ts[1:]
	case *types.Slice:
		return &SliceV{ts[0], ts[1], ts[2], ts[3]}, ts[4:]
	case *types.Interface:
		return &IfaceV{ts[0], ts[1]}, ts[2:]
	case *types.Array:
		if byteArrayLen(t) > 0 {
			return ts[0], ts[1:]
		}
		n := len(x.compsOf(u.Elem()))
		return &ArrSym{Comps: ts[:n], Len: u.Len()}, ts[n:]
	case *types.Struct:
		sv := &StructV{T: u}
		for i := 0; i < u.NumFields(); i++ {
			var fv Value
			fv, ts = x.unflatten(u.Field(i).Type(), ts)
			sv.Fields = append(sv.Fields, fv)
		}
		return sv, ts
	}
	unsupported("unflatten %s", t)
	return nil, nil
}

func (x *Exec) freshValue(st *State, t types.Type, hint string) Value {
	cs := x.compsOf(t)
	var ts []*Term
	for _, c := range cs {
		ts = append(ts, x.freshSym(hint+c.suffix, c.sort))
	}
	v, _ := x.unflatten(t, ts)
	x.assumeTypeInv(st, t, v)
	return v
}

var bv62 = BVConst(new(big.Int).Lsh(big.NewInt(1), 62), 64)

// assumeTypeInv adds the representation invariants of a value of type t.
func (x *Exec) assumeTypeInv(st *State, t types.Type, v Value) {
	switch u := t.Underlying().(type) {
	case *types.Slice:
		s := v.(*SliceV)
		st.Assume(BVCmp("bvule", s.Len, s.Cap))
		st.Assume(BVCmp("bvult", s.Cap, bv62))
		st.Assume(BVCmp("bvult", s.Off, bv62))
		// nil slice: base 0 => cap 0
		st.Assume(Implies(Eq(s.Base, IntConstI(0)), Eq(s.Cap, BVConstU(0, 64))))
	case *types.Interface:
		i := v.(*IfaceV)
		st.Assume(IntCmp(">=", i.Tag, IntConstI(0)))
	case *types.Struct:
		sv := v.(*StructV)
		for i := 0; i < u.NumFields(); i++ {
			x.assumeTypeInv(st, u.Field(i).Type(), sv.Fields[i])
		}
	}
}

func (x *Exec) zeroValue(t types.Type) Value {
	switch u := t.Underlying().(type) {
	case *types.Basic:
		if isBool(t) {
			return TFalse
		}
		if w, _, ok := intInfo(t); ok {
			return BVConstU(0, w)
		}
		if isString(t) {
			return x.strConst("")
		}
		if isFloat(t) {
			return &Term{S: "(_ +zero 11 53)", Sort: SFP64}
		}
		if u.Kind() == types.UnsafePointer {
			return IntConstI(0)
		}
	case *types.Pointer:
		return &PtrV{Ref: IntConstI(0), Elem: u.Elem()}
	case *types.Map, *types.Chan:
		return IntConstI(0)
	case *types.Signature:
		return &FuncV{Sym: IntConstI(0)}
	case *types.Slice:
		z := BVConstU(0, 64)
		return &SliceV{IntConstI(0), z, z, z}
	case *types.Interface:
		return &IfaceV{IntConstI(0), IntConstI(0)}
	case *types.Array:
		if n := byteArrayLen(t); n > 0 {
			return BVConstU(0, 8*n)
		}
		if _, isS := u.Elem().Underlying().(*types.Struct); isS {
			return &ArrSym{Len: u.Len()}
		}
		var cs []*Term
		zs := x.flattenZero(u.Elem())
		for i, c := range x.compsOf(u.Elem()) {
			cs = append(cs, x.constArray(c.sort, zs[i]))
		}
		return &ArrSym{Comps: cs, Len: u.Len()}
	case *types.Struct:
		sv := &StructV{T: u}
		for i := 0; i < u.NumFields(); i++ {
			sv.Fields = append(sv.Fields, x.zeroValue(u.Field(i).Type()))
		}
		return sv
	}
	unsupported("zero value of %s", t)
	return nil
}

func (x *Exec) flattenZero(t types.Type) []*Term { return x.flatten(t, x.zeroValue(t)) }

func (x *Exec) zeroOfSort(s Sort) *Term {
	switch s.K {
	case KBool:
		return TFalse
	case KBV:
		return BVConstU(0, s.W)
	case KInt:
		return IntConstI(0)
	case KUnint:
		if s.Name == "GoStr" {
			return x.strConst("")
		}
	}
	return x.freshSym("zero", s)
}

func (x *Exec) constArray(elt Sort, v *Term) *Term {
	as := ArraySort(SBV64, elt)
	return &Term{S: fmt.Sprintf("((as const %s) %s)", as.String(), v.S), Sort: as}
}

// ---------- exec-level symbol helpers ----------

func (x *Exec) freshSym(hint string, s Sort) *Term {
	x.fresh++
	h := strings.Map(func(r rune) rune {
		if r == '|' || r == '\\' || r == ' ' || r == '\n' || r == '\t' {
			return '_'
		}
		return r
	}, hint)
	return x.D.Const(fmt.Sprintf("|%s!%d|", h, x.fresh), s)
}

func (x *Exec) strConst(s string) *Term {
	if t, ok := x.strConsts[s]; ok {
		return t
	}
	name := fmt.Sprintf("|str!%d|", len(x.strConsts))
	t := x.D.Const(name, SStr)
	x.strConsts[s] = t
	x.strOrder = append(x.strOrder, s)
	return t
}

func (x *Exec) strLen(t *Term) *Term { return x.D.Fun("strlen", SBV64, t) }

func (x *Exec) tagOf(t types.Type) *Term {
	k := typeKey(t)
	if id, ok := x.typeTags[k]; ok {
		return IntConstI(int64(id))
	}
	id := len(x.typeTags) + 1
	x.typeTags[k] = id
	x.tagTypes[id] = t
	return IntConstI(int64(id))
}

func (x *Exec) funcTerm(f *FuncV) *Term {
	if f.Sym != nil {
		return f.Sym
	}
	// concrete function: unique positive id per function (closures with captures lose captures -> unsupported)
	if len(f.Free) > 0 || f.Recv != nil {
		// a closure with captured variables (or a bound method value) stored as data: it becomes an
		// opaque function value. Whoever loads and calls it later calls "some function" (callback
		// obligations, then the heap is forgotten); its captured variables escaped when it was made.
		x.note("closure stored as data becomes an opaque function value: " + funcKey(f.Fn))
		f.Sym = x.freshSym("closure", SInt)
		return f.Sym
	}
	k := funcKey(f.Fn)
	if id, ok := x.funcIds[k]; ok {
		return IntConstI(int64(id))
	}
	id := len(x.funcIds) + 1
	x.funcIds[k] = id
	x.funcById[id] = f.Fn
	return IntConstI(int64(id))
}

func (x *Exec) fieldConst(owner string, name string) int64 {
	k := owner + "." + name
	if c, ok := x.fieldIds[k]; ok {
		return c
	}
	c := int64(len(x.fieldIds) + 1)
	if c >= refK-1 {
		// refK-1 is reserved: it is the residue of element references (see elemRefSt)
		unsupported("too many embedded struct fields")
	}
	x.fieldIds[k] = c
	return c
}

func (x *Exec) subRef(base *Term, owner, name string) *Term {
	c := x.fieldConst(owner, name)
	return IntBin("+", IntBin("*", base, IntConstI(refK)), IntConstI(c))
}

func (x *Exec) newRef(st *State, hint string) *Term {
	// fresh object reference: refK * (alloc0 + k), k = 1,2,...
	x.allocCount++
	r := x.freshSym("ref."+hint, SInt)
	// distinct from every previously allocated ref on this path and from "old" refs: r > allocBase and multiples of K
	def := Eq(r, IntBin("*", IntConstI(refK), IntBin("+", x.allocBase, IntConstI(int64(x.allocCount)))))
	st.Assume(&Term{S: def.S, Sort: SBool, Def: r.S})
	st.allocs = append(st.allocs, r)
	st.setClass(r, refFresh)
	x.setRoot(r, r.S)
	if x.rootNum == nil {
		x.rootNum = map[string]int{}
	}
	x.rootNum[r.S] = x.allocCount
	return r
}

// assumeOld states that ref is not a freshly allocated object of this run (it existed at entry).
func (x *Exec) assumeOld(st *State, ref *Term) {
	st.Assume(IntCmp("<=", ref, IntBin("*", IntConstI(refK), x.allocBase)))
	st.setClass(ref, refOld)
}

// ---------- heap ----------

func (x *Exec) heapArr(st *State, name string, idx, elt Sort) *Term {
	if t, ok := st.heap[name]; ok {
		return t
	}
	// arrays first touched after a whole-heap havoc belong to that havoc generation, not to the entry heap
	gen := x.heapGenOf(st, name)
	if gen != "0" && x.isFinalArray(name) {
		gen = "0"
	}
	t := x.D.Const(smtName(name+"@"+gen), ArraySort(idx, elt))
	if root, ok := x.loopBaseGen(st, name); ok && root != gen && idx.K == KInt {
		// first touched after the havoc of a loop that writes this array only at objects allocated
		// during the run: memory that existed at entry reads as in the generation before the loop
		base := x.D.Const(smtName(name+"@"+root), ArraySort(idx, elt))
		if root == "0" {
			if x.arrBorn == nil {
				x.arrBorn = map[string]int{}
			}
			if _, ok := x.arrBorn[base.S]; !ok {
				x.arrBorn[base.S] = 0
			}
			if x.heap0 != nil {
				if _, ok := x.heap0[name]; !ok {
					x.heap0[name] = base
				}
			}
		} else if _, ok := x.arrBorn[base.S]; !ok {
			x.noteBorn(base)
		}
		if st.fwd == nil {
			st.fwd = map[string]*fwdCache{}
		}
		st.fwd[name] = &fwdCache{arr: t.S, ent: map[string]*Term{}, base: base, allFresh: true}
		// (remembered: under "attr loopframe fresh" the assumption below is an invariant that the
		// rest of the loop body has to preserve, see zz_entryframe.go)
		st.ghost["$late:"+name] = t
		// the same fact for the solver: memory that existed at entry reads as before the loop
		st.Assume(&Term{S: fmt.Sprintf("(forall ((|lo?r| Int)) (! (=> (<= |lo?r| (* %d |alloc0|)) (= (select %s |lo?r|) (select %s |lo?r|))) :pattern ((select %s |lo?r|))))", refK, t.S, base.S, t.S), Sort: SBool})
	}
	if gen == "0" {
		if x.arrBorn == nil {
			x.arrBorn = map[string]int{}
		}
		x.arrBorn[t.S] = 0
	} else {
		x.noteBorn(t)
	}
	st.heap[name] = t
	if gen == "0" && x.heap0 != nil {
		if _, ok := x.heap0[name]; !ok {
			x.heap0[name] = t
		}
	}
	return t
}

func (x *Exec) heapHavoc(st *State, name string) {
	if x.isFinalArray(name) {
		return // a field written only during construction (zz_final.go)
	}
	if t, ok := st.heap[name]; ok {
		st.heap[name] = x.freshSym("hv."+name, t.Sort)
		x.noteBorn(st.heap[name])
		x.havocKeepStack(st, name, t, st.heap[name])
	}
}

func (x *Exec) heapHavocAll(st *State) {
	var names []string
	for n := range st.heap {
		names = append(names, n)
	}
	sort.Strings(names)
	for _, n := range names {
		x.heapHavoc(st, n)
	}
	st.ghost["$havocAll"] = TTrue
	for k := range st.ghost {
		if strings.HasPrefix(k, "$havocBase:") || k == "$havoc:*" {
			delete(st.ghost, k)
		}
	}
	x.fresh++
	st.ghost["$gen"] = fmt.Sprintf("g%d", x.fresh)
	x.bumpEpoch(st)
}

func structKey(t types.Type) string { return typeKey(t) }

// loadComps reads the components of type t stored under array prefix at index idx.
func (x *Exec) loadAt(st *State, prefix string, idx *Term, t types.Type) Value {
	cs := x.compsOf(t)
	var ts []*Term
	for _, c := range cs {
		arr := x.heapArr(st, prefix+c.suffix, idx.Sort, c.sort)
		t := x.heapSelect(st, prefix+c.suffix, arr, idx)
		if c.sort.K == KInt && (c.suffix == "" || c.suffix == ".base" || c.suffix == ".ref") {
			x.boundLoadedRef(st, t)
		}
		ts = append(ts, t)
	}
	v, _ := x.unflatten(t, ts)
	// every value stored in memory satisfies its representation invariant (len <= cap, ...):
	// inputs by assumption, values built by the program by construction
	x.assumeTypeInv(st, t, v)
	return v
}

func (x *Exec) storeAt(st *State, prefix string, idx *Term, t types.Type, v Value) {
	cs := x.compsOf(t)
	ts := x.flatten(t, v)
	for i, c := range cs {
		name := prefix + c.suffix
		x.heapArr(st, name, idx.Sort, c.sort)
		x.heapStoreFwd(st, name, idx, ts[i])
	}
}

// nameTerm introduces a definition for big terms to keep scripts small.
func (x *Exec) nameTerm(st *State, t *Term, hint string) *Term {
	if t.IsConst || len(t.S) < 120 {
		return t
	}
	c := x.freshSym(hint, t.Sort)
	st.Assume(&Term{S: "(= " + c.S + " " + t.S + ")", Sort: SBool, Def: c.S})
	if cl, ok := st.refClass[t.S]; ok {
		st.setClass(c, cl)
	}
	if st.stack[t.S] {
		st.markStack(c)
	}
	if rt, ok := x.refRoot[t.S]; ok {
		x.setRoot(c, rt)
	}
	if ub, ok := x.refUB[t.S]; ok {
		x.noteUB(c, ub)
	}
	return c
}

func (x *Exec) nameValue(st *State, t types.Type, v Value, hint string) Value {
	switch vv := v.(type) {
	case *Term:
		return x.nameTerm(st, vv, hint)
	case *SliceV:
		return &SliceV{x.nameTerm(st, vv.Base, hint), x.nameTerm(st, vv.Off, hint), x.nameTerm(st, vv.Len, hint), x.nameTerm(st, vv.Cap, hint)}
	case *IfaceV:
		return &IfaceV{x.nameTerm(st, vv.Tag, hint), x.nameTerm(st, vv.Ref, hint)}
	case *PtrV:
		n := *vv
		n.Ref = x.nameTerm(st, vv.Ref, hint)
		if vv.Idx != nil {
			n.Idx = x.nameTerm(st, vv.Idx, hint)
		}
		return &n
	}
	return v
}

// structFieldPrefix returns heap array prefix for field f of struct type key.
func fieldPrefix(owner, name string) string { return "F:" + owner + "." + name }

// loadStruct reads a whole struct value located at ref.
func (x *Exec) loadStruct(st *State, ref *Term, named types.Type) Value {
	u := named.Underlying().(*types.Struct)
	owner := structKey(named)
	sv := &StructV{T: u}
	for i := 0; i < u.NumFields(); i++ {
		f := u.Field(i)
		sv.Fields = append(sv.Fields, x.loadField(st, ref, owner, f))
	}
	return sv
}

func (x *Exec) loadField(st *State, ref *Term, owner string, f *types.Var) Value {
	if _, ok := f.Type().Underlying().(*types.Struct); ok {
		return x.loadStruct(st, x.subRefSt(st, ref, owner, f.Name()), f.Type())
	}
	return x.loadAt(st, fieldPrefix(owner, f.Name()), ref, f.Type())
}

func (x *Exec) storeStruct(st *State, ref *Term, named types.Type, v Value) {
	u := named.Underlying().(*types.Struct)
	owner := structKey(named)
	sv := v.(*StructV)
	for i := 0; i < u.NumFields(); i++ {
		f := u.Field(i)
		x.storeField(st, ref, owner, f, sv.Fields[i])
	}
}

func (x *Exec) storeField(st *State, ref *Term, owner string, f *types.Var, v Value) {
	if _, ok := f.Type().Underlying().(*types.Struct); ok {
		x.storeStruct(st, x.subRefSt(st, ref, owner, f.Name()), f.Type(), v)
		return
	}
	x.storeAt(st, fieldPrefix(owner, f.Name()), ref, f.Type(), v)
}

func cellPrefix(t types.Type) string { return "C:" + typeKey(t) }
func elemPrefix(t types.Type) string { return "E:" + typeKey(t) }

// elemRef gives the object reference of a struct-typed slice element.
func (x *Exec) elemRef(base, idx *Term) *Term { return x.D.Fun("elemref", SInt, base, idx) }

func (x *Exec) Load(st *State, p *PtrV) Value {
	if p.Backed {
		n := byteArrayLen(p.Elem)
		var v *Term
		for i := 0; i < n; i++ {
			b := x.loadElem(st, p.Ref, BVConstU(uint64(i), 64), types.Typ[types.Uint8]).(*Term)
			if v == nil {
				v = b
			} else {
				v = Concat(v, b)
			}
		}
		return v
	}
	switch {
	case p.Inner != nil:
		arr := x.Load(st, p.Inner).(*Term)
		return byteOfArray(arr, p.Idx)
	case p.Fld != nil:
		return x.loadAt(st, fieldPrefix(p.Fld.Owner, p.Fld.Name), p.Ref, p.Fld.Type)
	case p.SlEl:
		return x.loadElem(st, p.Ref, p.Idx, p.Elem)
	}
	if _, ok := p.Elem.Underlying().(*types.Struct); ok {
		return x.loadStruct(st, p.Ref, p.Elem)
	}
	if at, ok := backedArray(p.Elem); ok {
		if _, isS := at.Elem().Underlying().(*types.Struct); isS {
			unsupported("load of whole array of structs")
		}
		a := &ArrSym{Len: at.Len()}
		for _, c := range x.compsOf(at.Elem()) {
			arr := x.heapArr(st, elemPrefix(at.Elem())+c.suffix, SInt, ArraySort(SBV64, c.sort))
			a.Comps = append(a.Comps, Select(arr, p.Ref))
		}
		return a
	}
	return x.loadAt(st, cellPrefix(p.Elem), p.Ref, p.Elem)
}

// backedArray reports whether t is an array type stored like a slice backing array (not a bit-vector).
func backedArray(t types.Type) (*types.Array, bool) {
	at, ok := t.Underlying().(*types.Array)
	if !ok || byteArrayLen(t) > 0 {
		return nil, false
	}
	return at, true
}

func (x *Exec) StoreTo(st *State, p *PtrV, v Value) {
	if p.Backed {
		n := byteArrayLen(p.Elem)
		bv := v.(*Term)
		for i := 0; i < n; i++ {
			hi := 8*(n-i) - 1
			x.storeElem(st, p.Ref, BVConstU(uint64(i), 64), types.Typ[types.Uint8], Extract(hi, hi-7, bv))
		}
		return
	}
	switch {
	case p.Inner != nil:
		arr := x.Load(st, p.Inner).(*Term)
		x.StoreTo(st, p.Inner, setByteOfArray(arr, p.Idx, v.(*Term)))
		return
	case p.Fld != nil:
		x.storeAt(st, fieldPrefix(p.Fld.Owner, p.Fld.Name), p.Ref, p.Fld.Type, v)
		return
	case p.SlEl:
		x.storeElem(st, p.Ref, p.Idx, p.Elem, v)
		return
	}
	if _, ok := p.Elem.Underlying().(*types.Struct); ok {
		x.storeStruct(st, p.Ref, p.Elem, v)
		return
	}
	if at, ok := backedArray(p.Elem); ok {
		if _, isS := at.Elem().Underlying().(*types.Struct); isS {
			x.note("array of structs: elements not initialised in the model (sound: unconstrained)")
			return
		}
		a := v.(*ArrSym)
		for i, c := range x.compsOf(at.Elem()) {
			name := elemPrefix(at.Elem()) + c.suffix
			x.heapArr(st, name, SInt, ArraySort(SBV64, c.sort))
			x.heapStoreFwd(st, name, p.Ref, a.Comps[i])
		}
		return
	}
	x.storeAt(st, cellPrefix(p.Elem), p.Ref, p.Elem, v)
}

// slice elements: arrays  E:<T><comp> : Array Int (Array BV64 sort)
func (x *Exec) loadElem(st *State, base, idx *Term, t types.Type) Value {
	if _, ok := t.Underlying().(*types.Struct); ok {
		return x.loadStruct(st, x.elemRefSt(st, base, idx), t)
	}
	cs := x.compsOf(t)
	var ts []*Term
	for _, c := range cs {
		arr := x.heapArr(st, elemPrefix(t)+c.suffix, SInt, ArraySort(SBV64, c.sort))
		et := Select(x.heapSelect(st, elemPrefix(t)+c.suffix, arr, base), idx)
		if c.sort.K == KInt && (c.suffix == "" || c.suffix == ".base" || c.suffix == ".ref") {
			x.boundLoadedRef(st, et)
		}
		ts = append(ts, et)
	}
	v, _ := x.unflatten(t, ts)
	x.assumeTypeInv(st, t, v)
	return v
}

func (x *Exec) storeElem(st *State, base, idx *Term, t types.Type, v Value) {
	if _, ok := t.Underlying().(*types.Struct); ok {
		x.storeStruct(st, x.elemRefSt(st, base, idx), t, v)
		return
	}
	cs := x.compsOf(t)
	ts := x.flatten(t, v)
	for i, c := range cs {
		name := elemPrefix(t) + c.suffix
		arr := x.heapArr(st, name, SInt, ArraySort(SBV64, c.sort))
		inner := x.heapSelect(st, name, arr, base)
		x.heapStoreFwd(st, name, base, x.nameTerm(st, Store(inner, idx, ts[i]), "el"))
	}
}

// elemArray returns the whole backing array (Array BV64 sort) of the first component of elem type t at base.
func (x *Exec) elemArray(st *State, base *Term, t types.Type) *Term {
	cs := x.compsOf(t)
	if len(cs) != 1 {
		unsupported("elemArray of multi-component type %s", t)
	}
	arr := x.heapArr(st, elemPrefix(t)+cs[0].suffix, SInt, ArraySort(SBV64, cs[0].sort))
	return x.heapSelect(st, elemPrefix(t)+cs[0].suffix, arr, base)
}

func (x *Exec) setElemArray(st *State, base *Term, t types.Type, a *Term) {
	cs := x.compsOf(t)
	name := elemPrefix(t) + cs[0].suffix
	x.heapArr(st, name, SInt, ArraySort(SBV64, cs[0].sort))
	x.heapStoreFwd(st, name, base, a)
}

// byteOfArray extracts byte idx (BV64) from a [n]byte bit-vector (byte 0 is the most significant).
func byteOfArray(arr *Term, idx *Term) *Term {
	n := arr.Sort.W / 8
	if idx.IsConst {
		i := int(idx.BVal.Int64())
		if i < 0 || i >= n {
			return BVConstU(0, 8)
		}
		hi := arr.Sort.W - 1 - 8*i
		return Extract(hi, hi-7, arr)
	}
	// symbolic: shift right by (n-1-idx)*8
	w := arr.Sort.W
	var sh *Term
	if w >= 64 {
		sh = ZeroExt(w-64, idx)
	} else {
		sh = Extract(w-1, 0, idx)
	}
	amt := BVBin("bvmul", BVBin("bvsub", BVConstU(uint64(n-1), w), sh), BVConstU(8, w))
	return Extract(7, 0, BVBin("bvlshr", arr, amt))
}

func setByteOfArray(arr *Term, idx *Term, b *Term) *Term {
	n := arr.Sort.W / 8
	w := arr.Sort.W
	if idx.IsConst {
		i := int(idx.BVal.Int64())
		hi := w - 1 - 8*i
		var parts []*Term
		if hi < w-1 {
			parts = append(parts, Extract(w-1, hi+1, arr))
		}
		parts = append(parts, b)
		if hi-8 >= 0 {
			parts = append(parts, Extract(hi-8, 0, arr))
		}
		r := parts[0]
		for _, p := range parts[1:] {
			r = Concat(r, p)
		}
		return r
	}
	var sh *Term
	if w >= 64 {
		sh = ZeroExt(w-64, idx)
	} else {
		sh = Extract(w-1, 0, idx)
	}
	amt := BVBin("bvmul", BVBin("bvsub", BVConstU(uint64(n-1), w), sh), BVConstU(8, w))
	m := BVBin("bvshl", BVConstU(0xff, w), amt)
	cleared := BVBin("bvand", arr, BVNot(m))
	return BVBin("bvor", cleared, BVBin("bvshl", ZeroExt(w-8, b), amt))
}

// ---------- byte sequences ----------

// seqOf returns the abstract byte sequence of a []byte slice in the current heap.
func (x *Exec) seqOf(st *State, s *SliceV) *Term {
	bt := types.Typ[types.Uint8]
	arr := x.elemArray(st, s.Base, bt)
	t := x.D.Fun("seqof", SSeq, arr, s.Off, s.Len)
	x.needSeqAxioms = true
	// instances of the sequence axioms for this term: its length, and "all empty sequences are equal"
	st.Assume(Eq(x.seqLen(t), s.Len))
	e := x.D.Fun("seqempty", SSeq)
	st.Assume(Eq(x.seqLen(e), BVConstU(0, 64)))
	st.Assume(Implies(Eq(s.Len, BVConstU(0, 64)), Eq(t, e)))
	if s.Len.IsConst && s.Len.BVal.Int64() == 1 {
		// a one-byte sequence is determined by its byte
		st.Assume(Eq(t, x.seqByte(st, Select(arr, s.Off))))
	}
	if s.Len.IsConst && s.Len.BVal.Int64() >= 2 && s.Len.BVal.Int64() <= 8 {
		// a short constant-length sequence is the concatenation of its bytes
		{
			n := s.Len.BVal.Int64()
			c := x.seqByte(st, Select(arr, s.Off))
			for i := int64(1); i < n; i++ {
				c = x.seqCat(st, c, x.seqByte(st, Select(arr, BVBin("bvadd", s.Off, BVConstU(uint64(i), 64)))))
			}
			st.Assume(Eq(t, c))
			x.catParts[t.S] = x.catParts[c.S]
		}
	}
	return t
}

func (x *Exec) seqLen(t *Term) *Term { return x.D.Fun("seqlen", SBV64, t) }
