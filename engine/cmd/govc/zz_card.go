package main

// Finite-set facts about map lengths. len(m) is card(dom m), card an uninterpreted function of the
// key set. Facts stated over the set itself (not only at the sets a path happens to mention), so that
// they also apply to lengths that appear when the solver instantiates a quantified fact:
//   bound      card(A) < 2^62
//   empty      card(A) = 0  <=>  no key is in A
// (both only for functions whose contract asks for them with "attr cardaxioms on": quantified axioms
// over sets push the solvers into their incomplete fragment), and with "attr pigeonhole on" also the
// two-set axiom, matched on every pair of lengths:
//   pigeonhole card(A) = card(B) and A subset of B  =>  A = B
// All three are true of finite sets, which the key sets of Go maps are.

import (
	"fmt"
	"sort"
	"strings"
)

func (x *Exec) cardAxioms() []*Term {
	if x.rootC == nil || x.rootC.Attrs["cardaxioms"] != "on" {
		// quantified axioms over sets push the solvers into their incomplete fragment: only for
		// functions whose contract asks for them
		return nil
	}
	var names []string
	for n := range x.D.funs {
		if strings.HasPrefix(n, "|card:") {
			names = append(names, n)
		}
	}
	sort.Strings(names)
	var out []*Term
	for _, n := range names {
		txt := x.D.funs[n]
		// (declare-fun NAME ((Array K Bool)) (_ BitVec 64))
		i := strings.Index(txt, "((Array ")
		if i < 0 {
			continue
		}
		arr := txt[i+1 : sexprEnd(txt, i+1)] // (Array K Bool)
		ks := strings.TrimSpace(arr[len("(Array "):])
		ke := sexprEnd(ks, 0)
		key := ks[:ke]
		out = append(out,
			&Term{S: fmt.Sprintf("(forall ((|cd?a| %s)) (! (bvult (%s |cd?a|) (_ bv4611686018427387904 64)) :pattern ((%s |cd?a|))))", arr, n, n), Sort: SBool},
			&Term{S: fmt.Sprintf("(forall ((|cd?a| %s)) (! (= (= (%s |cd?a|) (_ bv0 64)) (forall ((|cd?k| %s)) (not (select |cd?a| |cd?k|)))) :pattern ((%s |cd?a|))))", arr, n, key, n), Sort: SBool})
		if x.rootC.Attrs["pigeonhole"] == "on" {
			out = append(out, &Term{S: fmt.Sprintf("(forall ((|cd?a| %s) (|cd?b| %s)) (! (or (distinct (%s |cd?a|) (%s |cd?b|)) (exists ((|cd?k| %s)) (and (select |cd?a| |cd?k|) (not (select |cd?b| |cd?k|)))) (= |cd?a| |cd?b|)) :pattern ((%s |cd?a|) (%s |cd?b|))))", arr, arr, n, n, key, n, n), Sort: SBool})
		}
	}
	return out
}
