package main

// Maps, iteration, channels.

import (
	"fmt"
	"go/types"
	"strings"

	"golang.org/x/tools/go/ssa"
)

func (x *Exec) mapKeySort(mt *types.Map) Sort {
	kt := mt.Key()
	if n := byteArrayLen(kt); n > 0 {
		return BV(8 * n)
	}
	switch kt.Underlying().(type) {
	case *types.Basic, *types.Pointer:
		cs := x.compsOf(kt)
		return cs[0].sort
	case *types.Struct:
		// struct keys made of scalar comps: concatenate bit-vectors when all comps are BV
		cs := x.compsOf(kt)
		if len(cs) == 1 {
			// a wrapper around one scalar (cbor.ByteString): the key is that scalar
			return cs[0].sort
		}
		w := 0
		for _, c := range cs {
			if c.sort.K != KBV {
				// a key with a component that is not a bit-vector (a string): an uninterpreted
				// tuple sort with a constructor and projections (see tupleKey)
				return Sort{K: KUnint, Name: tupleKeySortName(kt)}
			}
			w += c.sort.W
		}
		return BV(w)
	}
	unsupported("map key type %s", kt)
	return Sort{}
}

func tupleKeySortName(kt types.Type) string {
	n := typeKey(kt)
	var b strings.Builder
	b.WriteString("Key_")
	for _, r := range n {
		if r >= 'a' && r <= 'z' || r >= 'A' && r <= 'Z' || r >= '0' && r <= '9' {
			b.WriteRune(r)
		} else {
			b.WriteByte('_')
		}
	}
	return b.String()
}

// tupleKey builds the key term of a struct key with non-bit-vector components: mk(c1..cn), with the
// instances proj_i(mk(c1..cn)) == c_i, which make the constructor injective on the terms that occur
// (Go compares struct keys field by field).
func (x *Exec) tupleKey(st *State, kt types.Type, ts []*Term) *Term {
	ks := Sort{K: KUnint, Name: tupleKeySortName(kt)}
	k := x.D.Fun("mk"+ks.Name, ks, ts...)
	if st != nil {
		for i, t := range ts {
			st.Assume(Eq(x.D.Fun(fmt.Sprintf("proj%d%s", i, ks.Name), t.Sort, k), t))
		}
	}
	return k
}

// tupleKeyComps decomposes a key term of a tuple sort into its components (projections), with the
// instance k == mk(proj_0(k), ...).
func (x *Exec) tupleKeyComps(st *State, kt types.Type, k *Term) []*Term {
	ks := Sort{K: KUnint, Name: tupleKeySortName(kt)}
	var ts []*Term
	for i, c := range x.compsOf(kt) {
		ts = append(ts, x.D.Fun(fmt.Sprintf("proj%d%s", i, ks.Name), c.sort, k))
	}
	if st != nil {
		st.Assume(Eq(k, x.D.Fun("mk"+ks.Name, ks, ts...)))
	}
	return ts
}

func (x *Exec) mapKeyTerm(mt *types.Map, k Value) *Term {
	kt := mt.Key()
	switch kv := k.(type) {
	case *Term:
		return kv
	case *PtrV:
		return kv.Ref
	case *StructV:
		ts := x.flatten(kt, kv)
		if ks := x.mapKeySort(mt); ks.K == KUnint && strings.HasPrefix(ks.Name, "Key_") {
			return x.tupleKey(x.keySt, kt, ts)
		}
		r := ts[0]
		for _, t := range ts[1:] {
			r = Concat(r, t)
		}
		return r
	}
	unsupported("map key value %T", k)
	return nil
}

func mapPrefix(mt *types.Map) string { return "M:" + typeKey(mt) }

func (x *Exec) mapDom(st *State, mt *types.Map) *Term {
	ks := x.mapKeySort(mt)
	return x.heapArr(st, mapPrefix(mt)+".dom", SInt, ArraySort(ks, SBool))
}

func (x *Exec) mapValComps(mt *types.Map) []comp {
	vt := mt.Elem()
	if _, ok := vt.Underlying().(*types.Struct); ok {
		return x.compsOf(vt)
	}
	return x.compsOf(vt)
}

func (x *Exec) initMap(st *State, ref *Term, mt *types.Map) {
	ks := x.mapKeySort(mt)
	name := mapPrefix(mt) + ".dom"
	dom := x.mapDom(st, mt)
	as := ArraySort(ks, SBool)
	empty := &Term{S: fmt.Sprintf("((as const %s) false)", as.String()), Sort: as}
	st.heap[name] = x.nameTerm(st, Store(dom, ref, empty), "h")
	st.Assume(Eq(x.card(empty), BVConstU(0, 64)))
}

func (x *Exec) card(dom *Term) *Term {
	return x.D.Fun(smtName("card:"+dom.Sort.String()), SBV64, dom)
}

func (x *Exec) mapLen(st *State, m *Term, mt *types.Map) *Term {
	d := Select(x.mapDom(st, mt), m)
	c := x.card(d)
	// instances of the finite-set axioms (zz_card.go) for this domain; under a binder they are dropped
	// (the axioms themselves, stated over the set, cover the instances the solver creates)
	f1 := BVCmp("bvult", c, bv62)
	// cardinality zero <=> no key present
	ks := x.mapKeySort(mt)
	q := x.freshBound("k", ks)
	f2 := Eq(Eq(c, BVConstU(0, 64)), &Term{S: fmt.Sprintf("(forall ((%s %s)) (not (select %s %s)))", q.S, ks.String(), d.S, q.S), Sort: SBool})
	f3 := Implies(Eq(m, IntConstI(0)), Eq(c, BVConstU(0, 64)))
	for _, f := range []*Term{f1, f2, f3} {
		st.Assume(f)
		x.noteValid(f)
	}
	return c
}

func (x *Exec) mapGet(st *State, m *Term, mt *types.Map, k Value) (Value, *Term) {
	x.keySt = st
	kt := x.mapKeyTerm(mt, k)
	dom := x.mapDom(st, mt)
	in := And(Neq(m, IntConstI(0)), Select(Select(dom, m), kt))
	cs := x.mapValComps(mt)
	zs := x.flatten(mt.Elem(), x.zeroValue(mt.Elem()))
	var ts []*Term
	ks := x.mapKeySort(mt)
	for i, c := range cs {
		arr := x.heapArr(st, mapPrefix(mt)+".val"+c.suffix, SInt, ArraySort(ks, c.sort))
		cell := Select(Select(arr, m), kt)
		if c.sort.K == KInt && (c.suffix == "" || strings.HasSuffix(c.suffix, ".base") || strings.HasSuffix(c.suffix, ".ref")) {
			// a reference stored in a map denotes memory that existed when the map's array came into being
			x.boundLoadedRef(st, cell)
		}
		ts = append(ts, Ite(in, cell, zs[i]))
	}
	v, _ := x.unflatten(mt.Elem(), ts)
	return v, in
}

func (x *Exec) mapUpdate(st *State, m *Term, mt *types.Map, k, v Value) {
	x.keySt = st
	kt := x.mapKeyTerm(mt, k)
	ks := x.mapKeySort(mt)
	dname := mapPrefix(mt) + ".dom"
	dom := x.mapDom(st, mt)
	old := Select(dom, m)
	nw := Store(old, kt, TTrue)
	st.Assume(Eq(x.card(nw), Ite(Select(old, kt), x.card(old), BVBin("bvadd", x.card(old), BVConstU(1, 64)))))
	st.heap[dname] = x.nameTerm(st, Store(dom, m, nw), "h")
	cs := x.mapValComps(mt)
	ts := x.flatten(mt.Elem(), v)
	for i, c := range cs {
		name := mapPrefix(mt) + ".val" + c.suffix
		arr := x.heapArr(st, name, SInt, ArraySort(ks, c.sort))
		st.heap[name] = x.nameTerm(st, Store(arr, m, Store(Select(arr, m), kt, ts[i])), "h")
	}
}

func (x *Exec) mapDelete(st *State, m *Term, mt *types.Map, k Value) {
	x.keySt = st
	kt := x.mapKeyTerm(mt, k)
	dname := mapPrefix(mt) + ".dom"
	dom := x.mapDom(st, mt)
	old := Select(dom, m)
	nw := Store(old, kt, TFalse)
	st.Assume(Eq(x.card(nw), Ite(Select(old, kt), BVBin("bvsub", x.card(old), BVConstU(1, 64)), x.card(old))))
	st.heap[dname] = x.nameTerm(st, Store(dom, m, nw), "h")
}

func (x *Exec) lookup(fr *Frame, st *State, in *ssa.Lookup) Value {
	xv := x.operand(fr, st, in.X)
	if mt, ok := in.X.Type().Underlying().(*types.Map); ok {
		v, present := x.mapGet(st, xv.(*Term), mt, x.operand(fr, st, in.Index))
		v = x.nameValue(st, mt.Elem(), v, in.Name())
		// a value read from a map is a well-formed value of its type (slice headers inside it)
		x.assumeTypeInv(st, mt.Elem(), v)
		if in.CommaOk {
			return &TupleV{[]Value{v, present}}
		}
		return v
	}
	// string index
	s := xv.(*Term)
	idx := x.operand(fr, st, in.Index).(*Term)
	_, sgn, _ := intInfo(in.Index.Type())
	idx = Resize(idx, 64, sgn)
	inb := BVCmp("bvult", idx, x.strLen(s))
	x.emitSafe(fr, st, "index", inb, in.Pos())
	st.Assume(inb)
	return x.D.Fun("strat", SBV8, s, idx)
}

func (x *Exec) next(fr *Frame, st *State, in *ssa.Next) Value {
	it := x.operand(fr, st, in.Iter).(*IterV)
	mt := it.MapT
	ks := x.mapKeySort(mt)
	visited := st.ghost[it.Visited].(*Term)
	dom := Select(x.mapDom(st, mt), it.Map)
	ok := x.freshSym("next.ok", SBool)
	kterm := x.freshSym("next.key", ks)
	// ok => key in dom \ visited ; !ok => dom subset of visited ; nil map => !ok
	st.Assume(Implies(ok, And(Neq(it.Map, IntConstI(0)), Select(dom, kterm), Not(Select(visited, kterm)))))
	q := x.freshBound("k", ks)
	st.Assume(Implies(Not(ok), Or(Eq(it.Map, IntConstI(0)), &Term{S: fmt.Sprintf("(forall ((%s %s)) (=> (select %s %s) (select %s %s)))", q.S, ks.String(), dom.S, q.S, visited.S, q.S), Sort: SBool})))
	st.ghost[it.Visited] = x.nameTerm(st, Ite(ok, Store(visited, kterm, TTrue), visited), "vis")
	// key value
	var kv Value
	kt := mt.Key()
	switch kt.Underlying().(type) {
	case *types.Struct:
		cs := x.compsOf(kt)
		var ts []*Term
		if ks.K == KUnint && strings.HasPrefix(ks.Name, "Key_") {
			ts = x.tupleKeyComps(st, kt, kterm)
		} else if len(cs) == 1 {
			ts = []*Term{kterm}
		} else {
			pos := ks.W
			for _, c := range cs {
				ts = append(ts, Extract(pos-1, pos-c.sort.W, kterm))
				pos -= c.sort.W
			}
		}
		kv, _ = x.unflatten(kt, ts)
	case *types.Pointer:
		kv = &PtrV{Ref: kterm, Elem: kt.Underlying().(*types.Pointer).Elem()}
	default:
		kv = kterm
	}
	val, _ := x.mapGet(st, it.Map, mt, kv)
	// when ok, key is present so value is the stored one; mapGet's ite handles it
	return &TupleV{[]Value{ok, kv, val}}
}

func (x *Exec) freshBound(hint string, s Sort) *Term {
	x.fresh++
	return &Term{S: fmt.Sprintf("|%s?%d|", hint, x.fresh), Sort: s}
}

// ---------- channels ----------

func (x *Exec) onSend(fr *Frame, st *State, in *ssa.Send) {
	x.escapeValue(st, x.operand(fr, st, in.X))
	// event only; "at send" obligations are evaluated by the contract layer
	x.checkEvent(fr, st, "send", in.Chan, x.operand(fr, st, in.X), in.X.Type())
}

// onRecv: a receive is an event that may carry a "callback recv:<chan> requires ..." obligation
// (e.g. a token may be taken back only by a call that put it there).
func (x *Exec) onRecv(fr *Frame, st *State, in *ssa.UnOp, v Value) {
	x.checkEvent(fr, st, "recv", in.X, nil, nil)
}

func (x *Exec) selectOp(fr *Frame, st *State, in *ssa.Select) Value {
	n := len(in.States)
	idx := x.freshSym("select.idx", SBV64)
	lo := BVConstU(0, 64)
	if !in.Blocking {
		// default case: index -1
		st.Assume(Or(Eq(idx, BVConst(bigInt(-1), 64)), And(BVCmp("bvsle", lo, idx), BVCmp("bvslt", idx, BVConstU(uint64(n), 64)))))
	} else {
		st.Assume(And(BVCmp("bvsle", lo, idx), BVCmp("bvslt", idx, BVConstU(uint64(n), 64))))
	}
	for _, s := range in.States {
		if s.Dir == types.SendOnly {
			x.escapeValue(st, x.operand(fr, st, s.Send))
		}
	}
	elems := []Value{idx, x.freshSym("select.ok", SBool)}
	for _, s := range in.States {
		if s.Dir == types.RecvOnly {
			ct := s.Chan.Type().Underlying().(*types.Chan)
			elems = append(elems, x.freshValue(st, ct.Elem(), "select.recv"))
		}
	}
	// receive cases are events when chosen
	for i, s := range in.States {
		if s.Dir == types.RecvOnly {
			cst := st.Clone()
			chosen := Eq(idx, BVConstU(uint64(i), 64))
			cst.Assume(chosen)
			x.inSelectEvent = true
			x.checkEvent(fr, cst, "recv", s.Chan, nil, nil)
			x.inSelectEvent = false
			x.tokenEvent(st, cst, "recv", x.describeFuncSource(s.Chan), chosen)
		}
	}
	// send cases are events when chosen
	for i, s := range in.States {
		if s.Dir == types.SendOnly {
			cst := st.Clone()
			chosen := Eq(idx, BVConstU(uint64(i), 64))
			cst.Assume(chosen)
			x.inSelectEvent = true
			x.checkEvent(fr, cst, "send", s.Chan, x.operand(fr, st, s.Send), s.Send.Type())
			x.inSelectEvent = false
			x.tokenEvent(st, cst, "send", x.describeFuncSource(s.Chan), chosen)
			// on the continuing path the send has happened exactly when this case was chosen
			key := "$sent:" + x.describeFuncSource(s.Chan)
			if prev, ok := st.ghost[key].(*Term); ok {
				st.ghost[key] = Or(prev, chosen)
			} else {
				st.ghost[key] = chosen
			}
		}
	}
	return &TupleV{elems}
}
