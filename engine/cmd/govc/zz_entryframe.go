package main

// attr loopframe fresh: "the loops of this function write only memory allocated during the call".
// For every reference-indexed heap array that a loop cut at its header forgets, the fact
//   forall r <= refK*alloc0 :: new[r] == old[r]
// (memory that existed at function entry reads as before the loop) is assumed at the loop head and
// proved at every back edge (obligation inv:loopN:preserve:entryframe:<array>). It is an inductive
// invariant like any other, generated instead of written because the contract language has no
// quantifier over all objects of the heap. With it the function's own frame ("assigns nothing", or
// a list that does not mention what the loops touch) can be proved through the loops.

import (
	"fmt"
	"sort"
	"strings"
)

func (x *Exec) loopFrameFresh(fr *Frame) bool {
	return fr.isRoot && x.rootC != nil && x.rootC.Attrs["loopframe"] == "fresh"
}

func entryUnchanged(cur, old *Term) *Term {
	return &Term{S: fmt.Sprintf("(forall ((|ef?r| Int)) (! (=> (<= |ef?r| (* %d |alloc0|)) (= (select %s |ef?r|) (select %s |ef?r|))) :pattern ((select %s |ef?r|))))", refK, cur.S, old.S, cur.S), Sort: SBool}
}

// assumeEntryFrame: after the loop-head havoc, relate every forgotten array to its value before the
// loop at the objects that existed at entry; returns the arrays as they are at the head.
func (x *Exec) assumeEntryFrame(st *State, before map[string]*Term) map[string]*Term {
	head := map[string]*Term{}
	var names []string
	for n := range st.heap {
		names = append(names, n)
	}
	sort.Strings(names)
	for _, n := range names {
		cur := st.heap[n]
		old, ok := before[n]
		if !ok || old.S == cur.S || cur.Sort.K != KArray || cur.Sort.Idx.K != KInt || !old.Sort.Eq(cur.Sort) {
			continue
		}
		st.Assume(entryUnchanged(cur, old))
		head[n] = cur
	}
	// arrays that are not materialised yet are forgotten by name; when the body touches one, it is
	// created with the same assumption (heapArr, "$late:"), which the body has to preserve as well.
	// Forget earlier such records: they belong to code before this loop head.
	for k := range st.ghost {
		if strings.HasPrefix(k, "$late:") {
			delete(st.ghost, k)
		}
	}
	return head
}

// checkEntryFrame: at a back edge, the body must have left the objects that existed at entry alone.
func (x *Exec) checkEntryFrame(st *State, lname string, head map[string]*Term) {
	var names []string
	for n := range head {
		names = append(names, n)
	}
	sort.Strings(names)
	for _, n := range names {
		cur, ok := st.heap[n]
		if !ok || cur.S == head[n].S {
			continue
		}
		lab := n
		if i := strings.LastIndex(lab, "/"); i >= 0 {
			lab = lab[i+1:]
		}
		x.emit(st, "inv", fmt.Sprintf("%s:preserve:entryframe:%s", lname, lab), entryUnchanged(cur, head[n]), false, "")
	}
	var late []string
	for k := range st.ghost {
		if strings.HasPrefix(k, "$late:") {
			late = append(late, k[6:])
		}
	}
	sort.Strings(late)
	for _, n := range late {
		t0, _ := st.ghost["$late:"+n].(*Term)
		cur, ok := st.heap[n]
		if t0 == nil || !ok || cur.S == t0.S {
			continue
		}
		if _, atHead := head[n]; atHead {
			continue
		}
		lab := n
		if i := strings.LastIndex(lab, "/"); i >= 0 {
			lab = lab[i+1:]
		}
		x.emit(st, "inv", fmt.Sprintf("%s:preserve:entryframe:%s", lname, lab), entryUnchanged(cur, t0), false, "")
	}
}
