package main

// Targeted loop havoc: when every write a loop makes to a heap array goes to an index that is the
// same in every iteration (a field of a struct the loop does not change its mind about, a map that
// is read from such a field), the havoc at the loop head is followed by the frame fact
//   forall r :: r != t1 && ... && r != tk  ==>  new[r] == old[r]
// so that everything else in that array reads as before the loop. Arrays with any write whose
// target cannot be shown loop-invariant are forgotten wholesale, as before.

import (
	"fmt"
	"go/token"
	"go/types"
	"sort"
	"strings"

	"golang.org/x/tools/go/ssa"
)

type loopTargets struct {
	idx        map[string][]*Term // array prefix -> loop-invariant indices written
	untargeted map[string]bool    // array prefix -> some write has an unknown target
}

func newLoopTargets() *loopTargets {
	return &loopTargets{idx: map[string][]*Term{}, untargeted: map[string]bool{}}
}

func (lt *loopTargets) add(pfx string, t *Term) {
	for _, o := range lt.idx[pfx] {
		if o.S == t.S {
			return
		}
	}
	lt.idx[pfx] = append(lt.idx[pfx], t)
}

func writtenIn(names map[string]bool, n string) bool {
	for pfx := range names {
		if n == pfx || strings.HasPrefix(n, pfx+".") || strings.HasPrefix(pfx, n+".") {
			return true
		}
	}
	return false
}

// loopInvValue evaluates v in the state at the loop head when v has the same value in every
// iteration: it is defined outside the loop, or it is a field address / load built from such values
// that reads only arrays the loop does not write.
func (x *Exec) loopInvValue(fr *Frame, st *State, li *loopInfo, v ssa.Value, names map[string]bool, depth int) (res Value, ok bool) {
	if depth > 6 {
		return nil, false
	}
	defer func() {
		if r := recover(); r != nil {
			res, ok = nil, false
		}
	}()
	switch v.(type) {
	case *ssa.Parameter, *ssa.FreeVar:
		val, found := fr.vals[v]
		return val, found && val != nil
	case *ssa.Const, *ssa.Global, *ssa.Function:
		return x.operand(fr, st, v), true
	}
	if ins, isIns := v.(ssa.Instruction); isIns && ins.Block() != nil && !li.blocks[ins.Block()] {
		val, found := fr.vals[v]
		return val, found && val != nil
	}
	switch u := v.(type) {
	case *ssa.FieldAddr:
		b, ok := x.loopInvValue(fr, st, li, u.X, names, depth+1)
		if !ok {
			return nil, false
		}
		p, isP := b.(*PtrV)
		if !isP {
			return nil, false
		}
		return x.fieldAddr(st, p, u.Field), true
	case *ssa.UnOp:
		if u.Op != token.MUL {
			return nil, false
		}
		for _, n := range x.arraysOfStore(u.X) {
			if writtenIn(names, n) {
				return nil, false
			}
		}
		a, ok := x.loopInvValue(fr, st, li, u.X, names, depth+1)
		if !ok {
			return nil, false
		}
		p, isP := a.(*PtrV)
		if !isP {
			return nil, false
		}
		return x.Load(st, p), true
	}
	return nil, false
}

// collectLoopTargets classifies the writes of the loop (second pass, after the set of written array
// prefixes is known).
func (x *Exec) collectLoopTargets(fr *Frame, st *State, li *loopInfo, names map[string]bool) *loopTargets {
	lt := newLoopTargets()
	scratch := st.Clone()
	for b := range li.blocks {
		for _, ins := range b.Instrs {
			switch i := ins.(type) {
			case *ssa.Store:
				ns := x.arraysOfStore(i.Addr)
				fa, isFA := i.Addr.(*ssa.FieldAddr)
				if !isFA || len(ns) != 1 {
					for _, n := range ns {
						lt.untargeted[n] = true
					}
					continue
				}
				v, ok := x.loopInvValue(fr, scratch, li, fa, names, 0)
				p, isP := v.(*PtrV)
				if !ok || !isP || p.Fld == nil || len(p.Ref.S) > 200 {
					lt.untargeted[ns[0]] = true
					continue
				}
				lt.add(ns[0], p.Ref)
			case *ssa.MapUpdate:
				mt, ok := i.Map.Type().Underlying().(*types.Map)
				if !ok {
					continue
				}
				x.targetMap(fr, scratch, li, names, lt, mt, i.Map)
			case ssa.CallInstruction:
				c := i.Common()
				if bi, ok := c.Value.(*ssa.Builtin); ok {
					switch bi.Name() {
					case "delete":
						if mt, ok := c.Args[0].Type().Underlying().(*types.Map); ok {
							x.targetMap(fr, scratch, li, names, lt, mt, c.Args[0])
						}
					case "append", "copy":
						if sl, ok := c.Args[0].Type().Underlying().(*types.Slice); ok {
							if _, isS := sl.Elem().Underlying().(*types.Struct); isS {
								for _, n := range x.arraysOfStructType(sl.Elem()) {
									lt.untargeted[n] = true
								}
							} else {
								lt.untargeted[elemPrefix(sl.Elem())] = true
							}
						}
					}
					continue
				}
				fn := c.StaticCallee()
				if fn == nil || c.IsInvoke() {
					continue
				}
				if strings.HasPrefix(funcKey(fn), "math/big.") {
					switch fn.Name() {
					case "Sign", "IsUint64", "IsInt64", "Cmp", "CmpAbs", "Uint64", "Int64", "String", "Text", "BitLen":
						continue
					}
					lt.untargeted["BigVal"] = true
					continue
				}
				con := x.CS.Funcs[funcKey(fn)]
				if con == nil || con.Inline || con.Pure {
					continue
				}
				x.targetAssigns(fr, scratch, li, names, lt, fn, con, c)
			}
		}
	}
	return lt
}

func (x *Exec) targetMap(fr *Frame, st *State, li *loopInfo, names map[string]bool, lt *loopTargets, mt *types.Map, m ssa.Value) {
	pfx := mapPrefix(mt)
	v, ok := x.loopInvValue(fr, st, li, m, names, 0)
	t, isT := v.(*Term)
	if !ok || !isT || len(t.S) > 300 {
		lt.untargeted[pfx] = true
		return
	}
	lt.add(pfx, t)
}

// targetAssigns resolves the items of a callee's assigns clause against the call's arguments.
func (x *Exec) targetAssigns(fr *Frame, st *State, li *loopInfo, names map[string]bool, lt *loopTargets, fn *ssa.Function, con *FuncContract, c *ssa.CallCommon) {
	all, ok := x.assignsArrayNames(fn, con)
	if !ok {
		return
	}
	untarget := func() {
		for _, n := range all {
			lt.untargeted[n] = true
		}
	}
	argOf := map[string]ssa.Value{}
	for i, p := range fn.Params {
		if i < len(c.Args) {
			argOf[x.contractParamName(fn, con, i)] = c.Args[i]
			if p.Name() != "" {
				argOf[p.Name()] = c.Args[i]
			}
		}
	}
	ptypes := map[string]types.Type{}
	for i, p := range fn.Params {
		ptypes[x.contractParamName(fn, con, i)] = p.Type()
	}
	for _, cl := range con.Clauses {
		if cl.Kind != "assigns" {
			continue
		}
		for _, it := range splitTop(cl.Text, ',') {
			it = strings.TrimSpace(it)
			star := strings.HasSuffix(it, "[*]")
			path := strings.TrimSuffix(it, "[*]")
			parts := strings.Split(path, ".")
			if it == "" || it == "nothing" {
				continue
			}
			if strings.HasPrefix(it, "all(") || strings.HasPrefix(it, "val(") || strings.HasPrefix(it, "gf(") || len(parts) != 2 {
				untarget()
				return
			}
			arg, found := argOf[strings.TrimSpace(parts[0])]
			if !found {
				untarget()
				return
			}
			av, ok := x.loopInvValue(fr, st, li, arg, names, 0)
			p, isP := av.(*PtrV)
			if !ok || !isP || p.Fld != nil || p.SlEl || p.Inner != nil {
				untarget()
				return
			}
			st0, isS := p.Elem.Underlying().(*types.Struct)
			if !isS {
				untarget()
				return
			}
			fi := -1
			for k := 0; k < st0.NumFields(); k++ {
				if st0.Field(k).Name() == strings.TrimSpace(parts[1]) {
					fi = k
				}
			}
			if fi < 0 {
				untarget()
				return
			}
			ft := st0.Field(fi).Type()
			if !star {
				if _, nested := ft.Underlying().(*types.Struct); nested {
					untarget()
					return
				}
				lt.add(fieldPrefix(structKey(p.Elem), st0.Field(fi).Name()), p.Ref)
				continue
			}
			mt, isM := ft.Underlying().(*types.Map)
			if !isM || writtenIn(names, fieldPrefix(structKey(p.Elem), st0.Field(fi).Name())) {
				untarget()
				return
			}
			var mv Value
			func() {
				defer func() {
					if r := recover(); r != nil {
						mv = nil
					}
				}()
				mv = x.Load(st, x.fieldAddr(st, p, fi))
			}()
			t, isT := mv.(*Term)
			if !isT {
				untarget()
				return
			}
			lt.add(mapPrefix(mt), t)
		}
	}
}

// assumeLoopFrame states, for a havocked array all of whose writes in the loop are targeted, that
// every other index reads as before the loop.
func (x *Exec) assumeLoopFrame(st *State, old, cur *Term, targets []*Term) {
	if old.Sort.K != KArray || !old.Sort.Eq(cur.Sort) {
		return
	}
	r := "|lf?r|"
	var conds []string
	ts := append([]*Term(nil), targets...)
	sort.Slice(ts, func(i, j int) bool { return ts[i].S < ts[j].S })
	for _, t := range ts {
		conds = append(conds, fmt.Sprintf("(not (= %s %s))", r, t.S))
	}
	ante := "true"
	switch len(conds) {
	case 0:
	case 1:
		ante = conds[0]
	default:
		ante = "(and " + strings.Join(conds, " ") + ")"
	}
	txt := fmt.Sprintf("(forall ((%s %s)) (! (=> %s (= (select %s %s) (select %s %s))) :pattern ((select %s %s))))",
		r, old.Sort.Idx.String(), ante, cur.S, r, old.S, r, cur.S, r)
	st.Assume(&Term{S: txt, Sort: SBool})
}
