package main

// Functional contracts: a pure deterministic function's results are an uninterpreted function of
// its arguments and of the heap epoch (bumped whenever memory that existed at entry may have changed).

import (
	"fmt"
	"go/types"
	"strings"

	"golang.org/x/tools/go/ssa"
)

func (x *Exec) epochTerm(st *State) *Term {
	if e, ok := st.ghost["$epoch"].(*Term); ok {
		return e
	}
	return IntConstI(0)
}

func (x *Exec) bumpEpoch(st *State) {
	x.fresh++
	st.ghost["$epoch"] = IntConstI(int64(x.fresh))
}

// functionalResult builds result i of fn as a UF application.
func (x *Exec) functionalResult(st *State, fn *ssa.Function, i int, args []Value) Value {
	con := x.CS.Funcs[funcKey(fn)]
	if con == nil {
		con = &FuncContract{}
	}
	return x.functionalResultDesc(st, x.descOfFunc(fn, con), i, args)
}

func (x *Exec) functionalResultDesc(st *State, d *calleeDesc, i int, args []Value) Value {
	key := d.key
	ins := []*Term{x.epochTerm(st)}
	for j, pt := range d.ptypes {
		ins = append(ins, x.flatten(pt, args[j])...)
	}
	rt := d.results.At(i).Type()
	cs := x.compsOf(rt)
	var ts []*Term
	for _, cp := range cs {
		ts = append(ts, x.D.Fun(smtName(fmt.Sprintf("fn:%s#%d%s", key, i, cp.suffix)), cp.sort, ins...))
	}
	v, _ := x.unflatten(rt, ts)
	x.assumeTypeInv(st, rt, v)
	return v
}

// findMethod locates the ssa function of method name on the (pointer or value) receiver type t.
func (x *Exec) findMethod(t types.Type, name string) *ssa.Function {
	for _, rt := range []types.Type{t, types.NewPointer(t)} {
		ms := x.P.Prog.MethodSets.MethodSet(rt)
		for i := 0; i < ms.Len(); i++ {
			if ms.At(i).Obj().Name() == name {
				if fn := x.P.Prog.MethodValue(ms.At(i)); fn != nil {
					return fn
				}
			}
		}
	}
	return nil
}

// specFunctionalCall evaluates `f(args)` / `recv.M$res(args)` for a function with a functional contract.
func (x *Exec) specFunctionalCall(env *SpecEnv, fn *ssa.Function, resName string, args []TV) TV {
	con := x.CS.Funcs[funcKey(fn)]
	if con == nil || !con.Functional {
		specFail("%s has no functional contract", funcKey(fn))
	}
	rs := fn.Signature.Results()
	idx := -1
	if resName == "" {
		if rs.Len() != 1 {
			specFail("%s returns %d results: select one with $name", funcKey(fn), rs.Len())
		}
		idx = 0
	} else {
		for i := 0; i < rs.Len(); i++ {
			if i < len(con.Results) && con.Results[i] == resName || resName == fmt.Sprint(i) {
				idx = i
			}
		}
		if idx < 0 {
			specFail("%s has no result named %s", funcKey(fn), resName)
		}
	}
	d := x.descOfFunc(fn, con)
	if len(args) != len(d.ptypes) {
		specFail("%s: expected %d arguments, got %d", funcKey(fn), len(d.ptypes), len(args))
	}
	var vals []Value
	for j, pt := range d.ptypes {
		vals = append(vals, x.coerceTo(args[j], pt).V)
	}
	v := x.functionalResultDesc(env.state(), d, idx, vals)
	return TV{v, rs.At(idx).Type()}
}

func splitRes(name string) (string, string) {
	if i := strings.Index(name, "$"); i > 0 {
		return name[:i], name[i+1:]
	}
	return name, ""
}

// rangeIndexInv: for a range-over-slice/array/int loop header the hidden index phi ("rangeindex")
// starts at -1 and only ever increases by one, so it is >= -1 (and far from wrapping).
func (x *Exec) rangeIndexInv(fr *Frame, b *ssa.BasicBlock) *Term {
	for _, ins := range b.Instrs {
		phi, ok := ins.(*ssa.Phi)
		if !ok {
			break
		}
		if phi.Comment == "rangeindex" {
			if v, ok := fr.vals[phi].(*Term); ok && v.Sort.K == KBV && v.Sort.W == 64 {
				return And(BVCmp("bvsge", v, BVConst(bigInt(-1), 64)), BVCmp("bvslt", v, bv62))
			}
		}
	}
	return nil
}

// bigFreshRooted reports whether a *big.Int operand is syntactically an object allocated by the
// function itself (new(big.Int), big.NewInt, or the receiver-returning result of a method on one).
func bigFreshRooted(v ssa.Value, depth int) bool {
	if depth > 6 {
		return false
	}
	switch a := v.(type) {
	case *ssa.Alloc:
		return true
	case *ssa.Call:
		fn := a.Common().StaticCallee()
		if fn == nil {
			return false
		}
		k := funcKey(fn)
		if k == "math/big.NewInt" {
			return true
		}
		if strings.HasPrefix(k, "math/big.(*Int).") && len(a.Common().Args) > 0 {
			switch strings.TrimPrefix(k, "math/big.(*Int).") {
			case "Add", "Sub", "Mul", "Div", "Quo", "Neg", "Abs", "Set", "SetUint64", "SetInt64", "SetBytes":
				return bigFreshRooted(a.Common().Args[0], depth+1)
			}
		}
	case *ssa.Phi:
		for _, e := range a.Edges {
			if !bigFreshRooted(e, depth+1) {
				return false
			}
		}
		return true
	}
	return false
}

// checkCallEvent evaluates "callback call:<FuncName> requires ..." clauses of the root contract at
// every static call of that function reached while verifying the root (arguments are arg0, arg1, ...).
// Only calls made by the root function itself count (not by inlined callees deeper down), so the
// clause reads as an assertion placed at that call site.
func (x *Exec) checkCallEvent(fr *Frame, st *State, key string, c *ssa.CallCommon, args []Value) {
	if x.rootC == nil {
		return
	}
	if x.localTarget != nil && (c != x.localTarget || !fr.isRoot) {
		return // local mode: only the site under verification is checked in this run
	}
	if fr.isRoot {
		x.tokenEvent(st, st, "call", key, nil)
	}
	for _, cl := range x.rootC.Clauses {
		if cl.Kind != "callback" || !strings.HasPrefix(cl.Name, "call:") {
			continue
		}
		want := cl.Name[5:]
		if !x.callPatternMatches(want, key, c) {
			continue
		}
		env := x.newSpecEnv(fr, st, x.rootPre)
		x.bindRootParams(env)
		x.bindFrameNames(env, fr)
		sig := c.Signature()
		off := 0
		if sig.Recv() != nil {
			env.bind("arg0", TV{args[0], sig.Recv().Type()})
			off = 1
		}
		for i := 0; i < sig.Params().Len() && i+off < len(args); i++ {
			env.bind(fmt.Sprintf("arg%d", i+off), TV{args[i+off], sig.Params().At(i).Type()})
		}
		g := x.specBool(env, cl.E)
		x.emit(st, "callback", fmt.Sprintf("%s:%s", cl.Name, cl.Label), g, false, cl.Line)
		st.ghost["$called:"+want] = TTrue
	}
	if x.localTarget != nil && c == x.localTarget && fr.isRoot {
		st.dead = true // local mode: the site has been checked, the path ends here
	}
}

// callPatternMatches: a "call:" pattern is a function name (suffix match at a name boundary),
// optionally followed by "/Seg": then the receiver (first argument) must have been obtained through a
// field named Seg (e.g. "(*Protocol).Start/Server" matches c.blockFetch.Server.Start(), where Start is
// promoted from an embedded *Protocol).
func (x *Exec) callPatternMatches(pattern, key string, c *ssa.CallCommon) bool {
	seg := ""
	if i := strings.LastIndex(pattern, "/"); i >= 0 && !strings.Contains(pattern[i:], ")") && !strings.Contains(pattern[i:], ".") {
		pattern, seg = pattern[:i], pattern[i+1:]
	}
	if i := strings.Index(key, "["); i > 0 && !strings.Contains(pattern, "[") && strings.HasSuffix(key, "]") && !strings.Contains(key[:i], "(") {
		key = key[:i] // an instantiation of a generic function is matched by the generic's name
	}
	short := key[strings.LastIndex(key, "/")+1:]
	if !(short == pattern || strings.HasSuffix(short, "."+pattern) || key == pattern) {
		return false
	}
	if seg == "" {
		return true
	}
	if len(c.Args) == 0 {
		return false
	}
	return strings.Contains("."+x.describeFuncSource(c.Args[0])+".", "."+seg+".")
}
