package main

// owned <Prop> Type.field Writer [Writer ...]: an ownership (frame) declaration. The field is
// stored to only by the named functions of the module (suffix match on the function key, e.g.
// "syncLoop", "(*Client).Sync", "Start$1"); no other function stores to it, takes its address for
// anything but a load, or overwrites a whole object of the type. Checked over every function of the
// module on every run; each function of the declaring package that is under contract for <Prop>
// carries the obligation `frame:owned:<Type.field>`, which fails - naming the offending function -
// when the declaration is violated. (Writes through reflection or unsafe are not seen.)

import (
	"go/token"
	"go/types"
	"sort"
	"strings"

	"golang.org/x/tools/go/ssa"
	"golang.org/x/tools/go/ssa/ssautil"
)

type ownedDecl struct {
	pkg, prop, tf string
	writers       []string
	violation     string // "" when the declaration holds
}

var ownedByProg = map[*Program][]*ownedDecl{}

func (x *Exec) ownedDecls() []*ownedDecl {
	if ds, ok := ownedByProg[x.P]; ok {
		return ds
	}
	var keys []string
	for k := range x.CS.PureIface {
		if strings.HasPrefix(k, "owned:") {
			keys = append(keys, k[6:])
		}
	}
	sort.Strings(keys)
	var ds []*ownedDecl
	for _, k := range keys {
		parts := strings.Split(k, "|") // pkg|prop|Type.field|w1,w2
		if len(parts) != 4 {
			continue
		}
		d := &ownedDecl{pkg: parts[0], prop: parts[1], tf: parts[2], writers: strings.Split(parts[3], ",")}
		ds = append(ds, d)
		i := strings.LastIndex(d.tf, ".")
		sp := x.P.byPkg[d.pkg]
		if i < 0 || sp == nil {
			d.violation = "bad declaration"
			continue
		}
		t := x.P.LookupType(sp.Pkg, d.tf[:i])
		if t == nil {
			d.violation = "unknown type " + d.tf[:i]
			continue
		}
		stt, ok := t.Underlying().(*types.Struct)
		if !ok {
			d.violation = "not a struct type"
			continue
		}
		idx := -1
		for f := 0; f < stt.NumFields(); f++ {
			if stt.Field(f).Name() == d.tf[i+1:] {
				idx = f
			}
		}
		if idx < 0 {
			d.violation = "no such field"
			continue
		}
		allowed := func(fn *ssa.Function) bool {
			for _, w := range d.writers {
				if matchTarget(w, funcKey(fn)) {
					return true
				}
			}
			return false
		}
		var bad []string
		for fn := range ssautil.AllFunctions(x.P.Prog) {
			if !x.P.InModule(fn) || allowed(fn) {
				continue
			}
			for _, b := range fn.Blocks {
				for _, ins := range b.Instrs {
					switch in := ins.(type) {
					case *ssa.Store:
						if _, fresh := in.Addr.(*ssa.Alloc); !fresh && types.Identical(in.Val.Type(), t) {
							bad = append(bad, "whole-object store in "+funcKey(fn))
						}
					case *ssa.FieldAddr:
						pt, ok := in.X.Type().Underlying().(*types.Pointer)
						if !ok || in.Field != idx || !types.Identical(pt.Elem(), t) || in.Referrers() == nil {
							continue
						}
						if _, fresh := in.X.(*ssa.Alloc); fresh {
							continue // object under construction
						}
						for _, r := range *in.Referrers() {
							switch u := r.(type) {
							case *ssa.DebugRef:
							case *ssa.UnOp:
								if u.Op != token.MUL {
									bad = append(bad, "address used in "+funcKey(fn))
								}
							case *ssa.Store:
								if u.Addr == ssa.Value(in) {
									bad = append(bad, "store in "+funcKey(fn))
								} else {
									bad = append(bad, "address stored in "+funcKey(fn))
								}
							default:
								bad = append(bad, "address escapes in "+funcKey(fn))
							}
						}
					}
				}
			}
		}
		sort.Strings(bad)
		if len(bad) > 0 {
			d.violation = strings.Join(bad, "; ")
		}
	}
	ownedByProg[x.P] = ds
	return ds
}

// emitOwned adds the ownership obligations of the root function's package and properties.
func (x *Exec) emitOwned(st *State, fn *ssa.Function, con *FuncContract) {
	if con == nil || fn.Pkg == nil {
		return
	}
	for _, d := range x.ownedDecls() {
		if d.pkg != fn.Pkg.Pkg.Path() {
			continue
		}
		has := false
		for _, p := range con.Props {
			if p == d.prop {
				has = true
			}
		}
		if !has {
			continue
		}
		if d.violation == "" {
			x.emit(st, "frame", "owned:"+d.tf, TTrue, false, "")
		} else {
			x.note("ownership of " + d.tf + " violated: " + d.violation)
			x.emit(st, "frame", "owned:"+d.tf, TFalse, false, d.violation)
		}
	}
}
