package main

import (
	"fmt"
	"go/types"
	"os"
	"sort"
	"strings"

	"golang.org/x/tools/go/packages"
	"golang.org/x/tools/go/ssa"
	"golang.org/x/tools/go/ssa/ssautil"
)

const goBinDir = "/opt/veriftools/go1.26.8/bin"

type Program struct {
	Prog    *ssa.Program
	Pkgs    []*packages.Package
	ModPath string
	RepoDir string
	Funcs   map[string]*ssa.Function // full key -> function (module functions + everything reachable by name)
	byPkg   map[string]*ssa.Package
	sentinels map[*ssa.Global]int
}

func funcKey(fn *ssa.Function) string {
	if fn.Pkg == nil {
		// synthetic / instantiation: try origin
		if o := fn.Origin(); o != nil && o.Pkg != nil {
			if len(fn.TypeArgs()) > 0 {
				// canonical name of an instantiation: the generic's name with its type parameter list
				// replaced by the alias-free type arguments (the SSA builder names an instance after
				// whichever spelling of the type arguments it met first)
				var as []string
				for _, t := range fn.TypeArgs() {
					as = append(as, typeKey(t))
				}
				args := "[" + strings.Join(as, ",") + "]"
				base := o.RelString(o.Pkg.Pkg)
				if i := strings.Index(base, "["); i >= 0 {
					if j := strings.Index(base[i:], "]"); j >= 0 {
						return o.Pkg.Pkg.Path() + "." + base[:i] + args + base[i+j+1:]
					}
				}
				// a generic function: name, optional "$n" suffix of an anonymous function inside it
				if k := strings.Index(base, "$"); k >= 0 {
					return o.Pkg.Pkg.Path() + "." + base[:k] + args + base[k:]
				}
				return o.Pkg.Pkg.Path() + "." + base + args
			}
			return o.Pkg.Pkg.Path() + "." + fn.RelString(o.Pkg.Pkg)
		}
		return fn.String()
	}
	return fn.Pkg.Pkg.Path() + "." + fn.RelString(fn.Pkg.Pkg)
}

func LoadProgram(repoDir string, overlay map[string][]byte, patterns ...string) (*Program, error) {
	if len(patterns) == 0 {
		patterns = []string{"./..."}
	}
	cfg := &packages.Config{
		Mode:       packages.LoadAllSyntax | packages.NeedModule,
		Dir:        repoDir,
		BuildFlags: []string{"-tags=verif"},
		Overlay:    overlay,
		Env: append(os.Environ(),
			"GOFLAGS=-mod=mod", "GOPROXY=off", "GOSUMDB=off", "GOTOOLCHAIN=local",
			"PATH="+goBinDir+":"+os.Getenv("PATH")),
	}
	pkgs, err := packages.Load(cfg, patterns...)
	if err != nil {
		return nil, err
	}
	var errs []string
	for _, p := range pkgs {
		for _, e := range p.Errors {
			errs = append(errs, e.Error())
		}
	}
	if len(errs) > 0 {
		return nil, fmt.Errorf("package load errors:\n%s", strings.Join(errs, "\n"))
	}
	prog, ssapkgs := ssautil.AllPackages(pkgs, ssa.GlobalDebug|ssa.InstantiateGenerics)
	p := &Program{Prog: prog, Pkgs: pkgs, RepoDir: repoDir, Funcs: map[string]*ssa.Function{}, byPkg: map[string]*ssa.Package{}}
	_ = ssapkgs
	for _, pk := range pkgs {
		if pk.Module != nil && pk.Module.Main {
			p.ModPath = pk.Module.Path
			break
		}
	}
	// Only the repository's own packages are built to SSA bodies; everything else is an
	// external function (never inlined, modelled by an intrinsic, a trusted spec or havoc).
	for _, sp := range prog.AllPackages() {
		p.byPkg[sp.Pkg.Path()] = sp
		path := sp.Pkg.Path()
		if path == p.ModPath || strings.HasPrefix(path, p.ModPath+"/") {
			sp.Build()
		}
	}
	var addFn func(fn *ssa.Function)
	addFn = func(fn *ssa.Function) {
		if fn == nil {
			return
		}
		k := funcKey(fn)
		if _, ok := p.Funcs[k]; ok {
			return
		}
		p.Funcs[k] = fn
		for _, a := range fn.AnonFuncs {
			addFn(a)
		}
	}
	for _, sp := range prog.AllPackages() {
		path := sp.Pkg.Path()
		if !(path == p.ModPath || strings.HasPrefix(path, p.ModPath+"/")) {
			continue
		}
		for _, m := range sp.Members {
			switch mm := m.(type) {
			case *ssa.Function:
				addFn(mm)
			case *ssa.Type:
				for _, t := range []types.Type{mm.Type(), types.NewPointer(mm.Type())} {
					ms := prog.MethodSets.MethodSet(t)
					for i := 0; i < ms.Len(); i++ {
						if fn := prog.MethodValue(ms.At(i)); fn != nil && fn.Synthetic == "" {
							addFn(fn)
						}
					}
				}
			}
		}
	}
	// instantiations of the repository's generic functions and methods (created on demand by the
	// SSA builder for the type arguments that occur in the program)
	for fn := range ssautil.AllFunctions(prog) {
		if fn.Origin() != nil && len(fn.TypeArgs()) > 0 && fn.Blocks != nil && p.InModule(fn) {
			addFn(fn)
		}
	}
	return p, nil
}

func (p *Program) InModule(fn *ssa.Function) bool {
	pk := fn.Pkg
	if pk == nil {
		if o := fn.Origin(); o != nil {
			pk = o.Pkg
		}
	}
	if pk == nil {
		return false
	}
	path := pk.Pkg.Path()
	return path == p.ModPath || strings.HasPrefix(path, p.ModPath+"/")
}

func (p *Program) Package(path string) *ssa.Package { return p.byPkg[path] }

// LookupType finds a named type by "pkgpath.Name" or, given a default package, "Name" / "pkgname.Name".
func (p *Program) LookupType(defPkg *types.Package, name string) types.Type {
	switch name {
	case "int":
		return types.Typ[types.Int]
	case "uint":
		return types.Typ[types.Uint]
	case "int8":
		return types.Typ[types.Int8]
	case "int16":
		return types.Typ[types.Int16]
	case "int32":
		return types.Typ[types.Int32]
	case "int64":
		return types.Typ[types.Int64]
	case "uint8", "byte":
		return types.Typ[types.Uint8]
	case "uint16":
		return types.Typ[types.Uint16]
	case "uint32":
		return types.Typ[types.Uint32]
	case "uint64":
		return types.Typ[types.Uint64]
	case "bool":
		return types.Typ[types.Bool]
	case "string":
		return types.Typ[types.String]
	case "error":
		return types.Universe.Lookup("error").Type()
	case "any":
		return types.Universe.Lookup("any").Type()
	}
	if strings.HasPrefix(name, "*") {
		if t := p.LookupType(defPkg, name[1:]); t != nil {
			return types.NewPointer(t)
		}
		return nil
	}
	if strings.HasPrefix(name, "[]") {
		if t := p.LookupType(defPkg, name[2:]); t != nil {
			return types.NewSlice(t)
		}
		return nil
	}
	if strings.HasPrefix(name, "[") {
		end := strings.Index(name, "]")
		var n int64
		fmt.Sscanf(name[1:end], "%d", &n)
		if t := p.LookupType(defPkg, name[end+1:]); t != nil {
			return types.NewArray(t, n)
		}
		return nil
	}
	if i := strings.Index(name, "["); i > 0 && strings.HasSuffix(name, "]") {
		// instantiation of a generic type: Name[Arg, ...]
		base := p.LookupType(defPkg, name[:i])
		named, ok := base.(*types.Named)
		if !ok || named.TypeParams().Len() == 0 {
			return nil
		}
		var targs []types.Type
		for _, a := range splitTop(name[i+1:len(name)-1], ',') {
			t := p.LookupType(defPkg, strings.TrimSpace(a))
			if t == nil {
				return nil
			}
			targs = append(targs, t)
		}
		inst, err := types.Instantiate(nil, named, targs, false)
		if err != nil {
			return nil
		}
		return inst
	}
	if i := strings.LastIndex(name, "."); i >= 0 {
		pn, tn := name[:i], name[i+1:]
		// try import path first, then package name among imports of defPkg, then any package with that name
		if sp := p.byPkg[pn]; sp != nil {
			if o := sp.Pkg.Scope().Lookup(tn); o != nil {
				return o.Type()
			}
		}
		if defPkg != nil {
			for _, imp := range defPkg.Imports() {
				if imp.Name() == pn {
					if o := imp.Scope().Lookup(tn); o != nil {
						return o.Type()
					}
				}
			}
		}
		var cands []string
		for path := range p.byPkg {
			cands = append(cands, path)
		}
		sort.Strings(cands)
		for _, path := range cands {
			sp := p.byPkg[path]
			if sp.Pkg.Name() == pn {
				if o := sp.Pkg.Scope().Lookup(tn); o != nil {
					return o.Type()
				}
			}
		}
		return nil
	}
	if defPkg != nil {
		if o := defPkg.Scope().Lookup(name); o != nil {
			if _, ok := o.(*types.TypeName); ok {
				return o.Type()
			}
		}
	}
	return nil
}

// sentinelError reports whether g is a package-level variable that the package initialiser sets to
// the result of errors.New / fmt.Errorf and that no other instruction of the loaded module stores to.
func (p *Program) sentinelError(g *ssa.Global) bool {
	// sentinel errors of packages outside the module (io.EOF, io.ErrUnexpectedEOF, ...) are
	// initialised by errors.New in their own package and never reassigned: assumed non-nil
	if g.Pkg != nil {
		path := g.Pkg.Pkg.Path()
		if !(path == p.ModPath || strings.HasPrefix(path, p.ModPath+"/")) {
			return strings.HasPrefix(g.Name(), "Err") || g.Name() == "EOF"
		}
	}
	if p.sentinels == nil {
		p.sentinels = map[*ssa.Global]int{}
		initStores := map[*ssa.Global]bool{}
		for _, fn := range p.Funcs {
			if fn.Synthetic == "package initializer" {
				continue
			}
			for _, b := range fn.Blocks {
				for _, ins := range b.Instrs {
					if st, ok := ins.(*ssa.Store); ok {
						if gg, ok := st.Addr.(*ssa.Global); ok {
							p.sentinels[gg]++
						}
					}
				}
			}
		}
		for _, sp := range p.byPkg {
			initFn := sp.Func("init")
			if initFn == nil {
				continue
			}
			for _, b := range initFn.Blocks {
				for _, ins := range b.Instrs {
					st, ok := ins.(*ssa.Store)
					if !ok {
						continue
					}
					gg, ok := st.Addr.(*ssa.Global)
					if !ok {
						continue
					}
					val := st.Val
					if mi, ok := val.(*ssa.MakeInterface); ok {
						val = mi.X
					}
					if c, ok := val.(*ssa.Call); ok {
						if callee := c.Common().StaticCallee(); callee != nil {
							k := funcKey(callee)
							if k == "errors.New" || k == "fmt.Errorf" {
								initStores[gg] = true
							}
						}
					}
				}
			}
		}
		for gg := range initStores {
			// the init function is not in p.Funcs (synthetic), so module-wide stores must be zero
			if p.sentinels[gg] == 0 {
				p.sentinels[gg] = -1
			}
		}
	}
	return p.sentinels[g] == -1
}
