package main

// slices.Sort on a slice of unsigned integers (trusted library model, listed in the evidence):
// afterwards the slice's elements are in ascending order and every element was an element before
// and vice versa (equal as sets; multiplicities are not modelled). Header unchanged.

import (
	"fmt"
	"go/types"

	"golang.org/x/tools/go/ssa"
)

func init() {
	for _, k := range []string{"slices.Sort[[]uint16, uint16]", "slices.Sort[[]uint16,uint16]"} {
		intrinsics[k] = slicesSortUnsigned
	}
}

func slicesSortUnsigned(x *Exec, fr *Frame, st *State, c *ssa.CallCommon, args []Value) Value {
	s := args[0].(*SliceV)
	et := c.Args[0].Type().Underlying().(*types.Slice).Elem()
	cs := x.compsOf(et)
	if len(cs) != 1 || cs[0].sort.K != KBV {
		unsupported("slices.Sort of %s", et)
	}
	x.note("intrinsic slices.Sort (trusted model): result ascending, same elements as a set")
	name := elemPrefix(et) + cs[0].suffix
	arr := x.heapArr(st, name, SInt, ArraySort(SBV64, cs[0].sort))
	old := x.nameTerm(st, x.heapSelect(st, name, arr, s.Base), "presort")
	nw := x.freshSym("sorted", ArraySort(SBV64, cs[0].sort))
	x.heapStoreFwd(st, name, s.Base, nw)
	off := s.Off
	rel := func(v string) string { // v is a relative index: inside the window
		return fmt.Sprintf("(bvult %s %s)", v, s.Len.S)
	}
	at := func(arr *Term, v string) string {
		return fmt.Sprintf("(select %s (bvadd %s %s))", arr.S, off.S, v)
	}
	hi := x.nameTerm(st, BVBin("bvadd", s.Off, s.Len), "sorthi")
	// outside the slice's window nothing changes
	st.Assume(&Term{S: fmt.Sprintf("(forall ((|so?k| (_ BitVec 64))) (! (=> (not (and (bvule %s |so?k|) (bvult |so?k| %s))) (= (select %s |so?k|) (select %s |so?k|))) :pattern ((select %s |so?k|))))", off.S, hi.S, nw.S, old.S, nw.S), Sort: SBool})
	// ascending (relative indices)
	st.Assume(&Term{S: fmt.Sprintf("(forall ((|so?i| (_ BitVec 64)) (|so?j| (_ BitVec 64))) (=> (and %s %s (bvule |so?i| |so?j|)) (bvule %s %s)))", rel("|so?i|"), rel("|so?j|"), at(nw, "|so?i|"), at(nw, "|so?j|")), Sort: SBool})
	// same elements as a set, both directions (skolem functions over relative indices give the witnesses)
	x.fresh++
	n1 := fmt.Sprintf("sortwit%d", x.fresh)
	x.fresh++
	n2 := fmt.Sprintf("sortwit%d", x.fresh)
	x.D.Fun(n1, SBV64, Sym("k", SBV64))
	x.D.Fun(n2, SBV64, Sym("k", SBV64))
	w1k := fmt.Sprintf("(%s |so?k|)", n1)
	w2k := fmt.Sprintf("(%s |so?k|)", n2)
	st.Assume(&Term{S: fmt.Sprintf("(forall ((|so?k| (_ BitVec 64))) (=> %s (and %s (= %s %s))))", rel("|so?k|"), rel(w1k), at(nw, "|so?k|"), at(old, w1k)), Sort: SBool})
	st.Assume(&Term{S: fmt.Sprintf("(forall ((|so?k| (_ BitVec 64))) (=> %s (and %s (= %s %s))))", rel("|so?k|"), rel(w2k), at(old, "|so?k|"), at(nw, w2k)), Sort: SBool})
	return nil
}
