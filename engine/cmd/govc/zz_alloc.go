package main

// attr allocates on: the callee returns linked structures that it allocated itself (a map of maps, a
// tree). Describing them on the heap arrays of the caller's current generation would contradict what
// is known of those arrays ("memory only refers to memory that already exists": every reference
// stored in an array is at most as young as the array's generation). So at such a call every
// reference-indexed array gets a new generation that agrees with the old one on all memory that
// exists at the call (refs <= refK*(alloc0+n), n the caller's allocation count) and is free beyond
// it, where the callee's objects live. Arrays not yet touched are treated alike by name.

import (
	"fmt"
	"sort"
)

func (x *Exec) extendHeapForCallee(st *State, nBefore int) {
	bound := fmt.Sprintf("(* %d (+ |alloc0| %d))", refK, nBefore)
	var names []string
	for n := range st.heap {
		names = append(names, n)
	}
	sort.Strings(names)
	for _, n := range names {
		arr := st.heap[n]
		if arr.Sort.K != KArray || arr.Sort.Idx.K != KInt || x.isFinalArray(n) {
			continue
		}
		nw := x.freshSym("al."+n, arr.Sort)
		x.noteBorn(nw)
		st.Assume(&Term{S: fmt.Sprintf("(forall ((|al?r| Int)) (! (=> (<= |al?r| %s) (= (select %s |al?r|) (select %s |al?r|))) :pattern ((select %s |al?r|))))", bound, nw.S, arr.S, nw.S), Sort: SBool})
		st.heap[n] = nw
		c := &fwdCache{arr: nw.S, ent: map[string]*Term{}, base2: arr, minNum2: nBefore + 1}
		if old := st.fwd[n]; old != nil && old.arr == arr.S {
			// everything cached is about memory that exists at the call
			for k, v := range old.ent {
				c.ent[k] = v
			}
			c.base, c.allFresh = old.base, old.allFresh
			if old.base2 != nil && old.minNum2 > 0 && old.minNum2 < c.minNum2 {
				c.base2, c.minNum2 = old.base2, old.minNum2
			}
		}
		if st.fwd == nil {
			st.fwd = map[string]*fwdCache{}
		}
		st.fwd[n] = c
	}
	// arrays first touched later: a generation of their own, related to the entry generation at the
	// objects that existed at entry (heapArr, loopBaseGen)
	x.fresh++
	if _, chained := st.ghost["$havocBase:*"].(string); !chained {
		prev := "0"
		if g, ok := st.ghost["$gen"].(string); ok {
			prev = g
		}
		st.ghost["$havocBase:*"] = prev
	}
	st.ghost["$havoc:*"] = "a" + itoa(x.fresh)
}
