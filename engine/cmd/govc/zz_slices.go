package main

// slices.Delete(s, i, j): removes s[i:j] in place - the elements after j move down by j-i, the
// result is s[:len(s)-(j-i)] over the same backing array. It panics unless 0 <= i <= j <= len(s).
// (The elements between the new and the old length are cleared by the library; they are left
// unconstrained here.)

import (
	"fmt"
	"go/types"
	"strings"

	"golang.org/x/tools/go/ssa"
)

func isSlicesDelete(key string) bool { return strings.HasPrefix(key, "slices.Delete[") }

func slicesDelete(x *Exec, fr *Frame, st *State, c *ssa.CallCommon, args []Value) Value {
	s, ok1 := args[0].(*SliceV)
	i, ok2 := args[1].(*Term)
	j, ok3 := args[2].(*Term)
	if !ok1 || !ok2 || !ok3 {
		unsupported("slices.Delete: unexpected argument shapes")
	}
	sl, ok := c.Args[0].Type().Underlying().(*types.Slice)
	if !ok {
		unsupported("slices.Delete on a non-slice")
	}
	et := sl.Elem()
	if _, isS := et.Underlying().(*types.Struct); isS {
		unsupported("slices.Delete on a slice of structs")
	}
	x.note("model: slices.Delete (in place: the elements after the gap move down, the cleared tail is unconstrained)")
	inb := And(BVCmp("bvsle", BVConstU(0, 64), i), BVCmp("bvsle", i, j), BVCmp("bvsle", j, s.Len))
	x.emitSafe(fr, st, "slice", inb, c.Pos())
	st.Assume(inb)
	d := x.nameTerm(st, BVBin("bvsub", j, i), "del")
	newLen := x.nameTerm(st, BVBin("bvsub", s.Len, d), "dlen")
	lo := BVBin("bvadd", s.Off, i)
	hi := BVBin("bvadd", s.Off, newLen)
	for _, cp := range x.compsOf(et) {
		name := elemPrefix(et) + cp.suffix
		arr := x.heapArr(st, name, SInt, ArraySort(SBV64, cp.sort))
		old := x.nameTerm(st, Select(arr, s.Base), "delold")
		nw := x.freshSym("del.elems", ArraySort(SBV64, cp.sort))
		k := "|sd?k|"
		end := BVBin("bvadd", s.Off, s.Len)
		st.Assume(&Term{S: fmt.Sprintf("(forall ((%s (_ BitVec 64))) (! (and (=> (and (bvuge %s %s) (bvult %s %s)) (= (select %s %s) (select %s (bvadd %s %s)))) (=> (or (bvult %s %s) (bvuge %s %s)) (= (select %s %s) (select %s %s)))) :pattern ((select %s %s))))",
			k, k, lo.S, k, hi.S, nw.S, k, old.S, k, d.S, k, lo.S, k, end.S, nw.S, k, old.S, k, nw.S, k), Sort: SBool})
		st.heap[name] = x.nameTerm(st, Store(arr, s.Base, nw), "h")
		delete(st.fwd, name)
	}
	return &SliceV{Base: s.Base, Off: s.Off, Len: newLen, Cap: s.Cap}
}
