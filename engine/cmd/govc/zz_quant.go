package main

import (
	"fmt"
	"go/types"
	"strconv"
	"strings"
)

// hasFieldDeep: u has a field named name, directly or through embedded structs.
func hasFieldDeep(u *types.Struct, name string, depth int) bool {
	if depth > 8 {
		return false
	}
	for i := 0; i < u.NumFields(); i++ {
		f := u.Field(i)
		if f.Name() == name {
			return true
		}
		if f.Embedded() {
			if es, ok := f.Type().Underlying().(*types.Struct); ok && hasFieldDeep(es, name, depth+1) {
				return true
			}
		}
	}
	return false
}

// hoistExistsFacts: state the facts recorded under an existential binder as a universal assertion
// (off: they are dropped, see specQuant).
var hoistExistsFacts = false

// mentionsFreshSince reports whether the SMT text s mentions a symbol |hint!N| (an engine-created
// constant) with N > since.
func mentionsFreshSince(s string, since int) bool {
	for i := 0; i < len(s); i++ {
		if s[i] != '!' {
			continue
		}
		j := i + 1
		for j < len(s) && s[j] >= '0' && s[j] <= '9' {
			j++
		}
		if j == i+1 || j >= len(s) || s[j] != '|' {
			continue
		}
		n, err := strconv.Atoi(s[i+1 : j])
		if err == nil && n > since {
			return true
		}
	}
	return false
}

// revealOpaque states the definition of an opaque spec function for the current heap epoch as a
// universally quantified axiom triggered on the application:
//   forall params :: f(epoch, params) == body(params)
// The body is evaluated once with the parameters as bound variables; facts recorded during that
// evaluation that mention the bound variables become antecedents, the others are plain facts.
func (x *Exec) revealOpaque(env *SpecEnv, sf *SpecFunc) {
	if x.revealing == nil {
		x.revealing = map[string]bool{}
	}
	if x.revealing[sf.Name] {
		return
	}
	x.revealing[sf.Name] = true
	defer delete(x.revealing, sf.Name)
	sub := *env
	sub.names = map[string]TV{}
	for k, v := range env.names {
		sub.names[k] = v
	}
	if sf.Pkg != "" {
		if sp := x.P.Package(sf.Pkg); sp != nil {
			sub.pkg = sp
		}
	}
	var binders, bnames []string
	var vals []TV
	startFresh := x.fresh
	for _, p := range sf.Params {
		s, t, kind := x.specSortOfIn(sf, env, p.Type)
		if kind == "composite" {
			var ts []*Term
			for _, c := range x.compsOf(t) {
				bc := x.freshBound(p.Name+c.suffix, c.sort)
				bnames = append(bnames, bc.S)
				binders = append(binders, fmt.Sprintf("(%s %s)", bc.S, c.sort.String()))
				ts = append(ts, bc)
			}
			val, _ := x.unflatten(t, ts)
			vals = append(vals, TV{val, t})
			continue
		}
		b := x.freshBound(p.Name, s)
		bnames = append(bnames, b.S)
		binders = append(binders, fmt.Sprintf("(%s %s)", b.S, s.String()))
		switch kind {
		case "int":
			vals = append(vals, mkSpecInt(b))
		case "seq":
			vals = append(vals, TV{V: &SpecVal{Kind: "seq", T: b}})
		case "ubv", "sbv":
			vals = append(vals, TV{V: &SpecVal{Kind: kind, T: b}})
		default:
			val, _ := x.unflatten(t, []*Term{b})
			vals = append(vals, TV{val, t})
		}
	}
	for i, p := range sf.Params {
		sub.names[p.Name] = vals[i]
	}
	scratch := env.state().Clone()
	scratch.readsOld = true
	sub.noUnfold = true
	if env.inOld {
		sub.old = scratch
	} else {
		sub.st = scratch
	}
	before := scratch.pc
	app := x.applySpecFuncVals(&sub, sf, vals)
	body := x.evalSpec(&sub, sf.Body)
	eq := x.specEq(&sub, app, body)
	var ante []*Term
	for p := scratch.pc; p != before && p != nil; p = p.prev {
		own := mentionsFreshSince(p.t.S, startFresh)
		for _, b := range bnames {
			if own {
				break
			}
			own = strings.Contains(p.t.S, b)
		}
		if own {
			ante = append(ante, p.t)
		} else {
			env.state().Assume(p.t)
		}
	}
	// Facts about the bound parameters (well-formedness of what the body reads, axiom instances) are
	// not made antecedents: f is a fresh symbol, so "f(p) == body(p) for every p" is a definition
	// whatever else holds, and an unconditional definition is the one usable in both polarities.
	_ = ante
	pat := x.flattenTV(app, sf.Result)[0]
	txt := fmt.Sprintf("(forall (%s) (! %s :pattern (%s)))", strings.Join(binders, " "), eq.S, pat.S)
	env.state().Assume(&Term{S: canonBound(txt), Sort: SBool, Reveal: true})
}

// canonBound renames the bound variables |name?N| of a closed formula to |name?cK|, K counting first
// appearances, so that two evaluations of the same formula give the same text.
func canonBound(s string) string {
	var b strings.Builder
	idx := map[string]string{}
	i := 0
	for i < len(s) {
		if s[i] != '|' {
			b.WriteByte(s[i])
			i++
			continue
		}
		j := strings.IndexByte(s[i+1:], '|')
		if j < 0 {
			b.WriteString(s[i:])
			break
		}
		sym := s[i : i+j+2]
		i += j + 2
		q := strings.LastIndexByte(sym, '?')
		if q < 0 || q == len(sym)-2 {
			b.WriteString(sym)
			continue
		}
		digits := true
		for _, c := range sym[q+1 : len(sym)-1] {
			if c < '0' || c > '9' {
				digits = false
			}
		}
		if !digits {
			b.WriteString(sym)
			continue
		}
		r, ok := idx[sym]
		if !ok {
			r = fmt.Sprintf("%s?c%d|", sym[:q], len(idx))
			idx[sym] = r
		}
		b.WriteString(r)
	}
	return b.String()
}
