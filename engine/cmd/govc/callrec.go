package main

import (
	"go/types"

	"golang.org/x/tools/go/ssa"
)

// callRecord remembers the last call of a function made by the function under verification.
type callRecord struct {
	args []Value
	res  Value
	sig  *types.Signature
	rt   types.Type
}

// nameArg: the function/target name given to called()/callres()/callarg()/sent(): an identifier
// path or a string literal (for names with parentheses such as "(*Bool).Load").
func nameArg(e Expr) string {
	if s, ok := e.(*EString); ok {
		return s.Val
	}
	return e.exprString()
}

// mentionsCallEvents reports whether an expression talks about calls made inside the function
// (called / callres / callarg / sent). Such clauses are proved for the function itself but are not
// assumed at its call sites: in the caller's state they would refer to the caller's own calls.
func mentionsCallEvents(e Expr, lets map[string]bool) bool {
	switch n := e.(type) {
	case *ECall:
		if id, ok := n.Fun.(*EIdent); ok {
			switch id.Name {
			case "called", "callres", "callarg", "sent":
				return true
			}
		}
		if mentionsCallEvents(n.Fun, lets) {
			return true
		}
		for _, a := range n.Args {
			if mentionsCallEvents(a, lets) {
				return true
			}
		}
	case *EIdent:
		return lets[n.Name]
	case *EUnary:
		return mentionsCallEvents(n.X, lets)
	case *EBinary:
		return mentionsCallEvents(n.X, lets) || mentionsCallEvents(n.Y, lets)
	case *ESel:
		return mentionsCallEvents(n.X, lets)
	case *EIndex:
		return mentionsCallEvents(n.X, lets) || mentionsCallEvents(n.I, lets)
	case *ESlice:
		if mentionsCallEvents(n.X, lets) {
			return true
		}
		if n.Lo != nil && mentionsCallEvents(n.Lo, lets) {
			return true
		}
		if n.Hi != nil && mentionsCallEvents(n.Hi, lets) {
			return true
		}
	case *EQuant:
		return mentionsCallEvents(n.Body, lets)
	}
	return false
}

// eventLets returns the names of the contract's lets that (transitively) mention call events.
func eventLets(con *FuncContract) map[string]bool {
	lets := map[string]bool{}
	for changed := true; changed; {
		changed = false
		for _, c := range con.Clauses {
			if c.Kind == "let" && !lets[c.Name] && mentionsCallEvents(c.E, lets) {
				lets[c.Name] = true
				changed = true
			}
		}
	}
	return lets
}

// sourceName names a function-typed value by the source variable it was bound to (from debug
// information) when there is one, else by where it was loaded from.
func (x *Exec) sourceName(fr *Frame, v ssa.Value) string {
	for name, sv := range fr.names {
		if sv == v && !fr.nameIsAddr[name] {
			return name
		}
	}
	return x.describeFuncSource(v)
}
