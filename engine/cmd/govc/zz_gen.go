package main

import "strings"

// heapGenOf is the generation tag a heap array gets when it is first touched in state st: the tag of
// the last loop havoc covering its name, else the tag of the last whole-heap havoc, else "0" (entry).
func (x *Exec) heapGenOf(st *State, name string) string {
	gen := "0"
	if g, ok := st.ghost["$gen"].(string); ok {
		gen = g
	}
	best := ""
	for k, v := range st.ghost {
		if strings.HasPrefix(k, "$havoc:") {
			pfx := k[7:]
			if name == pfx || strings.HasPrefix(name, pfx+".") {
				if g, ok := v.(string); ok && len(pfx) > len(best) {
					best = pfx
					gen = g
				}
			}
		}
	}
	if best == "" {
		// "$havoc:*": every array, by a callee that allocates (zz_alloc.go); a later whole-heap havoc
		// removes the record
		if g, ok := st.ghost["$havoc:*"].(string); ok {
			gen = g
		}
	}
	return gen
}

// loopBaseGen: when every loop havoc of this array since generation R only stood for stores to
// objects allocated during the run, returns R.
func (x *Exec) loopBaseGen(st *State, name string) (string, bool) {
	best := ""
	root := ""
	for k, v := range st.ghost {
		if strings.HasPrefix(k, "$havocBase:") {
			pfx := k[11:]
			if name == pfx || strings.HasPrefix(name, pfx+".") {
				if g, ok := v.(string); ok && len(pfx) >= len(best) {
					best = pfx
					root = g
				}
			}
		}
	}
	if root == "" {
		if g, ok := st.ghost["$havocBase:*"].(string); ok {
			if _, all := st.ghost["$havoc:*"].(string); all {
				root = g
			}
		}
	}
	return root, root != ""
}

// recordLoopHavoc notes the havoc of the arrays under prefix pfx at a loop head.
func (x *Exec) recordLoopHavoc(st *State, pfx, tag string, freshOnly bool) {
	prev := x.heapGenOf(st, pfx)
	if freshOnly {
		if _, chained := st.ghost["$havocBase:"+pfx].(string); !chained {
			st.ghost["$havocBase:"+pfx] = prev
		}
	} else {
		delete(st.ghost, "$havocBase:"+pfx)
	}
	st.ghost["$havoc:"+pfx] = tag
}
