#!/bin/bash
# usage: confirm_seeded.sh <ID>   -- confirms /verif/seeded_candidates/<ID> in a scratch worktree of /repo HEAD
# 1. demo passes without the change, 2. with the change: builds, demo fails, full existing suite passes.
set -u
ID=$1
C=/verif/seeded_candidates/$ID
WT=/tmp/cf-$ID
export GOFLAGS=-mod=mod GOPROXY=off GOSUMDB=off GOTOOLCHAIN=local PATH=/opt/veriftools/go1.26.8/bin:$PATH GOCACHE=/verif/.cache/go-build
git -C /repo worktree remove --force $WT 2>/dev/null
git -C /repo worktree add --detach $WT HEAD -q || exit 2
cd $WT
DEMO=$(ls $C/zz_seeded_*_test.go | head -1)
# intended directory: from NOTES.md (first path mentioning the demo file), else the package clause + touched dir
REL=$(grep -oE '[A-Za-z0-9_/.-]*zz_seeded_[A-Za-z0-9]+_test\.go' $C/NOTES.md | grep / | grep -v seeded_out | sed 's#^/tmp/wt-[A-Za-z0-9]*/##' | head -1)
if [ -z "$REL" ] && grep -qi "repository root" $C/NOTES.md; then REL=$(basename $DEMO); fi
if [ -z "$REL" ]; then echo "cannot determine demo path"; exit 2; fi
DIR=$(dirname $REL)
cp $DEMO $WT/$DIR/
PKG=./$DIR
RUN=$(grep -oE 'func (Test[A-Za-z0-9_]+)' $DEMO | awk '{print $2}' | paste -sd'|')
echo "== demo $REL tests: $RUN"
go test -count=1 -vet=off -run "^($RUN)\$" $PKG > /tmp/cf-$ID.pre.log 2>&1; PRE=$?
git apply $C/patch.diff || { echo "patch does not apply"; exit 2; }
go build ./... > /tmp/cf-$ID.build.log 2>&1; BUILD=$?
go test -count=1 -vet=off -run "^($RUN)\$" $PKG > /tmp/cf-$ID.post.log 2>&1; POST=$?
rm $WT/$DIR/$(basename $DEMO)
go test -count=1 -vet=off ./... > /tmp/cf-$ID.suite.log 2>&1; SUITE=$?
if [ $SUITE -ne 0 ]; then
  # retry failing packages once (timing flakes under load)
  FAILED=$(grep -E '^(FAIL|---)' /tmp/cf-$ID.suite.log | grep -oE 'github.com/blinklabs-io/gouroboros[^ 	]*' | sort -u | sed 's#github.com/blinklabs-io/gouroboros#.#')
  if [ -n "$FAILED" ]; then go test -count=1 -vet=off $FAILED > /tmp/cf-$ID.suite2.log 2>&1; SUITE=$?; fi
fi
echo "RESULT $ID pre(no change, demo must pass)=$PRE build=$BUILD post(with change, demo must fail)=$POST suite(with change, must pass)=$SUITE"
cd /; git -C /repo worktree remove --force $WT
if [ $PRE -eq 0 ] && [ $BUILD -eq 0 ] && [ $POST -ne 0 ] && [ $SUITE -eq 0 ]; then echo "CONFIRMED $ID"; exit 0; fi
echo "NOT CONFIRMED $ID"; exit 1
