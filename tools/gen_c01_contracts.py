#!/usr/bin/env python3
"""Write the C01 contract blocks into /repo/ledger/*/verif_contracts.go.

For every `func (r *T) UnmarshalCBOR(p []byte) error` whose body ends by storing its own parameter
(`r.SetCbor(p)` / `r.SetCborReference(p)`) the block states: on success the stored encoding is the
byte sequence of the slice that was passed in (as it is when the decoder returns: that third-party
decoders leave their input alone is not something these contracts can see).  For every identifier method of the shape
    if r.hash == nil { tmp := Blake2b256Hash(r.Cbor()); r.hash = &tmp }; return *r.hash
the block states: given a consistent cache, the result is Blake2b-256 of the stored encoding and the
cache stays consistent.  The blocks are delimited by BEGIN/END markers and rewritten as a whole;
the list of functions is re-derived from the sources on every run (so a new decoder of the same shape
gets a contract, and one that stops storing its input loses it and shows up in the diff).
usage: gen_c01_contracts.py [--check]   (--check: exit 1 if the files on disk differ)
"""
import glob, os, re, sys

REPO = "/repo"
BEGIN = "// BEGIN generated C01 contracts (tools/gen_c01_contracts.py in /verif)"
END = "// END generated C01 contracts"

UNM = re.compile(r'^func \((\w+) \*(\w+)\) UnmarshalCBOR\((\w+) \[\]byte\) error \{\n(.*?)^\}\n', re.S | re.M)
HASH = re.compile(r'^func \((\w+) (\*?)(\w+)\) (\w+)\(\) (?:common\.)?Blake2b256 \{\n'
                  r'\tif \1\.hash == nil \{\n\t\ttmpHash := (?:common\.)?Blake2b256Hash\(\1\.Cbor\(\)\)\n'
                  r'\t\t\1\.hash = &tmpHash\n\t\}\n\treturn \*\1\.hash\n\}\n', re.M)

# helpers that the transaction decoders call and whose bodies (metadata decoding) are outside what
# the C01 contracts need: no contract body is checked and callers forget the heap at the call
EXTRA = {"common": "\n// Metadata decoding helpers: their bodies are not needed for C01; callers forget the heap.\n"
                   "//@ func DecodeAuxiliaryData(raw) (aux, err)\n//@   nobody\n"
                   "//@ func DecodeAuxiliaryDataToMetadata(raw) (md, err)\n//@   nobody\n"}

# Functions of the two shapes that get no contract, with the reason (they are listed under
# not_covered in the C01 evidence):
SKIP_WHY = {
    # block decoders: the per-transaction byte ranges are set through ExtractAndSetTransactionCbor's
    # callbacks; symbolic execution of the whole function exceeds the path limit
    "ShelleyBlock": "path limit", "AllegraBlock": "path limit", "MaryBlock": "path limit", "AlonzoBlock": "path limit",
    "BabbageBlock": "path limit", "ConwayBlock": "path limit", "DijkstraBlock": "path limit",
    # Transaction.LeiosHash hashes Cbor() of the transaction, which re-encodes when nothing is stored
    "ShelleyTransaction.LeiosHash": "Cbor() is not the stored-bytes getter", "AllegraTransaction.LeiosHash": "same",
    "MaryTransaction.LeiosHash": "same", "AlonzoTransaction.LeiosHash": "same", "BabbageTransaction.LeiosHash": "same",
    "ConwayTransaction.LeiosHash": "same", "DijkstraTransaction.LeiosHash": "same", "ByronTransaction.LeiosHash": "same",
    # store first, then call a decoder the engine must treat as writing the whole heap
    "Datum": "stores before an external decode call", "NativeScript": "same", "PlutusDataList": "same",
    "AlonzoRedeemers": "same", "ConwayRedeemers": "same", "TransactionMetadataSet": "same", "ByronTransactionOutput": "same",
    # metadata decoders: path limit / unsupported construct
    "ShelleyAuxiliaryData": "path limit", "ShelleyMaAuxiliaryData": "path limit", "AlonzoAuxiliaryData": "path limit",
    "DijkstraGuards": "copy of []struct not modelled",
}
SKIP = (set(os.environ.get("C01_SKIP", "").split(",")) - {""}) | set(SKIP_WHY)

def blocks_for(pkgdir):
    out = []
    for f in sorted(glob.glob(os.path.join(pkgdir, "*.go"))):
        if f.endswith("_test.go") or os.path.basename(f).startswith("verif_"):
            continue
        s = open(f).read()
        for m in UNM.finditer(s):
            recv, typ, arg, body = m.groups()
            stores = re.findall(r'\b%s\.(SetCbor|SetCborReference)\(%s\)' % (recv, arg), body)
            if not stores or typ in SKIP:
                continue
            out.append((typ, "UnmarshalCBOR",
                        "//@ func (%s *%s) UnmarshalCBOR(%s) (err)\n"
                        "//@   props C01\n"
                        "//@   attr maxpaths 4000\n"
                        "//@   attr safe off\n"
                        "//@   requires recv: %s != nil\n"
                        "//@   ensures stored: err == nil ==> seq(%s.cborData) == seq(%s) && len(%s.cborData) == len(%s)\n"
                        % (recv, typ, arg, recv, recv, arg, recv, arg)))
        for m in HASH.finditer(s):
            recv, star, typ, name = m.groups()
            if typ + "." + name in SKIP:
                continue
            if star:
                out.append((typ, name,
                            "//@ func (%s *%s) %s() (r)\n"
                            "//@   props C01\n"
                            "//@   requires recv: %s != nil\n"
                            "//@   requires cache: %s.hash == nil || *%s.hash == H256(seq(%s.cborData))\n"
                            "//@   assigns %s.hash\n"
                            "//@   ensures id: r == H256(seq(%s.cborData))\n"
                            "//@   ensures cache: %s.hash != nil && *%s.hash == H256(seq(%s.cborData))\n"
                            % (recv, typ, name, recv, recv, recv, recv, recv, recv, recv, recv, recv)))
            else:
                out.append((typ, name,
                            "//@ func (%s %s) %s() (r)\n"
                            "//@   props C01\n"
                            "//@   requires cache: %s.hash == nil || *%s.hash == H256(seq(%s.cborData))\n"
                            "//@   ensures id: r == H256(seq(%s.cborData))\n"
                            % (recv, typ, name, recv, recv, recv, recv)))
    return out

def main():
    check = "--check" in sys.argv
    changed = False
    total = 0
    for pkgdir in sorted(glob.glob(os.path.join(REPO, "ledger", "*"))) + [os.path.join(REPO, "ledger")]:
        if not os.path.isdir(pkgdir):
            continue
        bl = blocks_for(pkgdir)
        p = os.path.join(pkgdir, "verif_contracts.go")
        if not bl and not os.path.exists(p):
            continue
        if os.path.exists(p):
            s = open(p).read()
        else:
            s = "//go:build verif\n\npackage %s\n\n// Contracts for /verif (contract-based deductive verification). Comment-only.\n" % os.path.basename(pkgdir)
        s0 = s
        s = re.sub(r'\n?' + re.escape(BEGIN) + r'.*?' + re.escape(END) + r'\n', '', s, flags=re.S)
        if bl:
            s = s.rstrip("\n") + "\n\n" + BEGIN + "\n" \
                "// C01: a decoder that keeps its input stores exactly the bytes it was given; an identifier\n" \
                "// is Blake2b-256 of the stored bytes (the cache, when set, holds that hash).\n" + \
                "\n".join(b[2] for b in bl) + EXTRA.get(os.path.basename(pkgdir), "") + END + "\n"
        total += len(bl)
        if s != s0:
            changed = True
            if not check:
                open(p, "w").write(s)
    print("%d generated C01 contracts%s" % (total, " (files differ)" if changed and check else ""))
    sys.exit(1 if (check and changed) else 0)

if __name__ == "__main__":
    main()
