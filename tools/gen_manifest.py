#!/usr/bin/env python3
"""Generate /verif/MANIFEST.json from contracts/properties.json (per-property claim metadata)."""
import json, subprocess
V = "/verif"
meta = json.load(open(f"{V}/contracts/properties.json"))
props = [json.loads(l) for l in open(f"{V}/properties.jsonl")]
checks, na = [], []
for p in props:
    pid = p["id"]
    m = meta.get(pid)
    if not m or m.get("not_applicable"):
        na.append({"property_id": pid, "reason": (m or {}).get("not_applicable", "no contract within reach decides it in this revision")})
        continue
    lvl = "P" if m["level"] == "P" else "K (kernel)"
    checks.append({
        "property_id": pid,
        "quick_cmd": f"/verif/bin/govc check {pid} --tier quick",
        "thorough_cmd": f"/verif/bin/govc check {pid} --tier thorough",
        "evidence_file": f"/verif/evidence/{pid}.json",
        "replay_cmd_template": f"/verif/bin/govc replay {pid} {{path}}",
        "engine": "govc",
        "level_claimed": {"category": "proof", "text": f"[{lvl}] " + m["text"], "design_ref": m.get("design_ref", "DESIGN.md section 10, " + pid)},
        "level_note": "Trusted base: x/tools go/ssa lowering, govc's SSA-to-SMT semantics (DESIGN.md section 5), the SMT solvers, and the assumed library contracts in /verif/specs listed per run in the evidence. " + " ".join(m.get("assumptions", [])) + (" NOT covered: " + "; ".join(m["not_covered"]) if m.get("not_covered") else ""),
        "technique": m.get("technique", "contract-based deductive verification: weakest-precondition style symbolic execution of go/ssa against //@ contracts, obligations discharged by z3/cvc5"),
    })
hooks = subprocess.run(["git", "-C", "/repo", "log", "--format=%h %s", "--grep=^verif:"], capture_output=True, text=True).stdout.strip().splitlines()
man = {
    "version": 1,
    "setup_cmd": "cd /verif/engine && GOFLAGS=-mod=vendor GOTOOLCHAIN=local GOPROXY=off /opt/veriftools/go1.26.8/bin/go build -o /verif/bin/govc ./cmd/govc",
    "hooks": {
        "guard": "verif",
        "enable": "contracts live in comment-only files <pkg>/verif_contracts.go guarded by //go:build verif; govc loads /repo with -tags=verif; no runtime hook exists (replays use go test -overlay)",
        "baseline_off_cmd": "cd /repo && GOFLAGS=-mod=mod GOPROXY=off GOTOOLCHAIN=local /opt/veriftools/go1.26.8/bin/go test -vet=off -count=1 -timeout 25m ./...",
        "source_commits": [h.split()[0] for h in hooks],
        "add_only": True,
    },
    "engines": [{"name": "govc", "path": "/verif/engine", "serves_properties": [c["property_id"] for c in checks],
                 "kind_free_text": "own verification-condition generator over go/ssa (x/tools v0.50.0, vendored) + contract language in //@ comments + SMT back ends z3 4.8.12 / z3 5.1.0 / cvc5 1.0 raced per obligation; counterexamples replayed on the real code with go test -overlay"}],
    "checks": checks,
    "not_applicable": na,
    "notes": "All checks rebuild the verification conditions from /repo's working tree on every run. `govc check all` runs every claimed property with one load. Known findings (all fixed): /verif/KNOWN_FINDINGS.json. Must-fail corpus: /verif/tools/selftest.py over /verif/selftest/mutants and /verif/seeded, results in /verif/seeded/RESULTS.md. Bounded stand-ins (labelled bounded in the evidence, never counted as proved): /verif/bounded/<id>/. Replay harnesses: /verif/replay/<id>/ (`govc replay <id> <file>`). Implementation status, deviations and limits: /verif/DESIGN.md section 14.",
}
json.dump(man, open(f"{V}/MANIFEST.json", "w"), indent=1)
print(len(checks), "checks,", len(na), "not applicable")
