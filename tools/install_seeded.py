#!/usr/bin/env python3
"""Install confirmed seeded changes: /verif/seeded_candidates/<ID> -> /verif/seeded/<ID> with meta.json.
usage: install_seeded.py <confirm-log> [...]"""
import json, os, re, shutil, sys, glob
props = {json.loads(l)["id"]: json.loads(l) for l in open("/verif/properties.jsonl")}
for log in sys.argv[1:]:
    txt = open(log).read()
    for m in re.finditer(r"RESULT (C\d+[a-z]?) (.*)\nCONFIRMED (C\d+[a-z]?)", txt):
        pid, res = m.group(1), m.group(2)
        src, dst = f"/verif/seeded_candidates/{pid}", f"/verif/seeded/{pid}"
        os.makedirs(dst, exist_ok=True)
        for f in glob.glob(src + "/*"):
            shutil.copy(f, dst)
        notes = open(src + "/NOTES.md").read() if os.path.exists(src + "/NOTES.md") else ""
        needs = [l.strip("-* ").strip() for l in notes.splitlines() if re.search(r"manifest|needs|only when|requires", l, re.I)][:6]
        demo = [os.path.basename(f) for f in glob.glob(dst + "/zz_seeded_*_test.go")]
        meta = {
            "property": pid[:3],
            "title": props[pid[:3]]["title"],
            "origin": "written by an independent sub-agent that saw only the property text and a scratch worktree of /repo (nothing from /verif)",
            "patch": "patch.diff",
            "demonstration": demo,
            "needs_to_manifest": needs,
            "confirmed": {
                "how": "tools/confirm_seeded.sh " + pid + " in a scratch worktree of /repo HEAD: demo passes without the change; with the change: go build ./... ok, demo fails, go test -count=1 -vet=off ./... passes (failing packages re-run once to rule out timing flakes)",
                "result": res,
            },
        }
        json.dump(meta, open(dst + "/meta.json", "w"), indent=1)
        print("installed", pid)
