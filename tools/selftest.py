#!/usr/bin/env python3
"""Must-fail corpus runner: every mutant must make the property's check report a VIOLATION.

usage: selftest.py [ID ...]     (default: all)
Mutants: /verif/selftest/mutants/<ID>/*.diff and /verif/seeded/<ID>/patch.diff.
Each mutant is applied to copies of the touched files under /verif/.work/selftest and
handed to govc as an overlay, so /repo is never modified.
"""
import json, os, re, shutil, subprocess, sys, glob, time

VERIF = "/verif"
REPO = "/repo"

def touched(diff):
    files = []
    for l in open(diff):
        m = re.match(r"^\+\+\+ b/(\S+)", l)
        if m:
            files.append(m.group(1))
    return files

def make_overlay(diff, work):
    shutil.rmtree(work, ignore_errors=True)
    os.makedirs(work)
    files = touched(diff)
    for f in files:
        dst = os.path.join(work, "tree", f)
        os.makedirs(os.path.dirname(dst), exist_ok=True)
        src = os.path.join(REPO, f)
        if os.path.exists(src):
            shutil.copy(src, dst)
    r = subprocess.run(["patch", "-p1", "-s", "-d", os.path.join(work, "tree"), "-i", os.path.abspath(diff)], capture_output=True, text=True)
    if r.returncode != 0:
        return None, r.stdout + r.stderr
    ov = {os.path.join(REPO, f): os.path.join(work, "tree", f) for f in files}
    p = os.path.join(work, "overlay.json")
    json.dump(ov, open(p, "w"))
    return p, ""

def main():
    ids = sys.argv[1:]
    muts = []
    for d in sorted(glob.glob(f"{VERIF}/selftest/mutants/*/*.diff")):
        muts.append((os.path.basename(os.path.dirname(d))[:3], d))
    for d in sorted(glob.glob(f"{VERIF}/seeded/*/patch.diff")):
        muts.append((os.path.basename(os.path.dirname(d))[:3], d))
    missed = 0
    rows = []
    claimed = set()
    try:
        claimed = {c["property_id"] for c in json.load(open(f"{VERIF}/MANIFEST.json"))["checks"]}
    except Exception:
        pass
    for pid, diff in muts:
        if ids and pid not in ids:
            continue
        if claimed and pid not in claimed:
            print(f"UNCLAIMED {pid} {os.path.relpath(diff, VERIF)}")
            rows.append((pid, os.path.relpath(diff, VERIF), "UNCLAIMED", "", ""))
            continue
        work = f"{VERIF}/.work/selftest/{pid}-{os.path.basename(os.path.dirname(diff))}-{os.path.basename(diff)}"
        ov, err = make_overlay(diff, work)
        if ov is None:
            print(f"SKIP {pid} {diff}: patch does not apply: {err.strip()[:200]}")
            rows.append((pid, os.path.relpath(diff, VERIF), "SKIP (no longer applies: the code it changed was repaired)", "", ""))
            continue
        t0 = time.time()
        ev = f"{VERIF}/evidence/{pid}.json"
        saved = open(ev).read() if os.path.exists(ev) else None
        r = subprocess.run([f"{VERIF}/bin/govc", "check", pid, "--overlay", ov, "--work", work + "/govc"], capture_output=True, text=True)
        # the evidence directory must describe the real tree, not the mutant
        if saved is not None:
            open(ev, "w").write(saved)
        elif os.path.exists(ev):
            os.remove(ev)
        vio = [l for l in r.stdout.splitlines() if l.startswith("VIOLATION")]
        if any("/load.json" in l for l in vio):
            print(f"INVALID {pid} {os.path.relpath(diff, VERIF)}: the mutant does not build")
            missed += 1
            continue
        ok = r.returncode == 1 and any(f"property={pid} " in l for l in vio)
        if any("/no-obligations.json" in l for l in vio):
            # the property has no contracts at all: nothing is claimed, so nothing was detected
            print(f"UNCLAIMED {pid} {os.path.relpath(diff, VERIF)}")
            rows.append((pid, os.path.relpath(diff, VERIF), "UNCLAIMED", "", ""))
            shutil.rmtree(work, ignore_errors=True)
            continue
        obl = ""
        if vio:
            m = re.search(r"replay=\S*/([^/\s]+)\.json", vio[0])
            obl = m.group(1) if m else ""
        rows.append((pid, os.path.relpath(diff, VERIF), "CAUGHT" if ok else "MISSED", obl,
                     "" if not vio else ("no failing input found" if "no-failing-input-found" in vio[0] else "replayed on the real code")))
        print(f"{'CAUGHT' if ok else 'MISSED'} {pid} {os.path.relpath(diff, VERIF)} ({time.time()-t0:.0f}s) {vio[0] if vio else ''}")
        if not ok:
            missed += 1
            print("   " + "\n   ".join(r.stdout.splitlines()[-5:] + r.stderr.splitlines()[-5:]))
        shutil.rmtree(work, ignore_errors=True)
    # RESULTS.md: rows of this run replace the rows for the same change; a full run rewrites the file
    path = f"{VERIF}/seeded/RESULTS.md"
    old_rows = {}
    if ids and os.path.exists(path):
        for l in open(path):
            cells = [c.strip() for c in l.strip().strip("|").split("|")]
            if len(cells) == 5 and re.match(r"^C\d\d$", cells[0]):
                old_rows[cells[1]] = tuple(cells)
    for r in rows:
        old_rows[r[1]] = r
    allrows = sorted(old_rows.values(), key=lambda r: (r[0], r[1])) if ids else rows
    with open(path, "w") as f:
        f.write("# Must-fail corpus: which obligation catches which change\n\n")
        f.write("Written by `tools/selftest.py` (a run without arguments rewrites it, a run for some properties\n"
                "replaces their rows). `seeded/<id>/patch.diff` were written by independent sub-agents from the\n"
                "property text alone; `selftest/mutants/<id>/*.diff` are hand-written must-fail edits. Each change\n"
                "is applied as an overlay (never to /repo) and the property's check must report a VIOLATION. The\n"
                "obligation named is the first one reported.\n\n")
        f.write("| property | change | result | first failed obligation (replay file name) | counterexample |\n|---|---|---|---|---|\n")
        for r in allrows:
            f.write("| %s | %s | %s | %s | %s |\n" % tuple(r))
    sys.exit(1 if missed else 0)

if __name__ == "__main__":
    main()
